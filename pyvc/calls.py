"""pyvc.calls -- call dispatch: contracts, inlining, builtins, methods on values."""
import ast
import z3

from .values import *  # noqa
from .state import *   # noqa
from . import ops, bigop
from .symex import View, VRefT
from .contract import CellOf, ObjSpec

MAX_INLINE_DEPTH = 12


class CallMixin:
    def expr_Lambda(self, st, n):
        return [(st, VFunc("lambda", (n, st.env)))]

    _MUTATORS = ("add", "append", "extend", "update", "difference_update", "discard", "remove")

    def expr_Call(self, st, n):
        if (isinstance(n.func, ast.Attribute) and n.func.attr in self._MUTATORS
                and isinstance(n.func.value, ast.Subscript)):
            return self.write_through(st, n)
        out = []
        for s, f in self.eval(st, n.func):
            if isinstance(f, Exc):
                out.append((s, f))
                continue
            # arguments (Starred kept as marker)
            argnodes = [a.value if isinstance(a, ast.Starred) else a for a in n.args]
            for s2, vals in self.eval_all(s, argnodes + [k.value for k in n.keywords]):
                if isinstance(vals, Exc):
                    out.append((s2, vals))
                    continue
                pos = vals[:len(argnodes)]
                star = [isinstance(a, ast.Starred) for a in n.args]
                kw = {}
                for k, v in zip(n.keywords, vals[len(argnodes):]):
                    if k.arg is None:
                        raise Unsupported("**kwargs at call site")
                    kw[k.arg] = v
                out.extend(self.call(s2, f, pos, kw, n, star))
        return out

    def write_through(self, st, n):
        """`c[k].add(x)` and friends: the nested container is a value inside c;
        the mutation is applied to a temporary cell and stored back into c[k]."""
        sub = n.func.value
        out = []
        for s, c in self.eval(st, sub.value):
            if isinstance(c, Exc):
                out.append((s, c))
                continue
            for s2, k in self.eval_index(s, sub.slice):
                if isinstance(k, Exc):
                    out.append((s2, k))
                    continue
                for s3, inner in self.get_item(s2, c, k, sub):
                    if isinstance(inner, Exc):
                        out.append((s3, inner))
                        continue
                    if isinstance(inner, VObj):
                        # a real object/cell stored in a concrete-shape container: ordinary call
                        for s4, vals in self.eval_all(s3, list(n.args)):
                            if isinstance(vals, Exc):
                                out.append((s4, vals))
                            else:
                                out.extend(self.call_method(s4, inner, n.func.attr, vals, {}, n))
                        continue
                    if not ops.is_cell(s3, c):
                        raise Unsupported(f"mutation through a borrowed container at line {self.line(n)}")
                    tmp = s3.alloc(HeapObj("cell", val=inner))
                    for s4, vals in self.eval_all(s3, list(n.args)):
                        if isinstance(vals, Exc):
                            out.append((s4, vals))
                            continue
                        for s5, r in self.call_method(s4, tmp, n.func.attr, vals, {}, n):
                            if isinstance(r, Exc):
                                out.append((s5, r))
                                continue
                            newinner = s5.heap.pop(tmp.oid).val
                            for s6, oc in self.set_item(s5, c, k, newinner, sub):
                                out.append((s6, r if isinstance(oc, Normal) else oc.exc))
        return out

    def call(self, st, f, pos, kw, node, star=None):
        star = star or [False] * len(pos)
        if not isinstance(f, VFunc):
            raise Unsupported(f"call of {f!r} at line {self.line(node)}")
        if any(star) and f.what not in ("bound", "module", "builtin"):
            # expand starred concrete sequences
            newpos = []
            for a, sflag in zip(pos, star):
                if sflag:
                    av = ops.deref(st, a)
                    if isinstance(av, (VSeq, VTuple)) and av.items is not None:
                        newpos.extend(av.items)
                    elif isinstance(av, VEmptySeq):
                        pass
                    else:
                        raise Unsupported("starred argument of symbolic length")
                else:
                    newpos.append(a)
            pos, star = newpos, [False] * len(newpos)
        if f.what == "func":
            return self.call_function(st, f.payload, pos, kw, node)
        if f.what == "method":
            return self.call_function(st, f.payload, [f.self_val] + pos, kw, node)
        if f.what == "closure":
            fi, cenv = f.payload
            return self.call_function(st, fi, pos, kw, node, closure_env=cenv)
        if f.what == "lambda":
            lam, cenv = f.payload
            saved = st.env
            st.env = {"$closure": cenv}
            for a, v in zip(lam.args.args, pos):
                st.env[a.arg] = v
            try:
                r = self.eval_pure(st, lam.body)
            finally:
                st.env = saved
            return [(st, r)]
        if f.what == "class":
            return self.construct(st, f.payload, pos, kw, node)
        if f.what == "amethod":
            kind, meth = f.payload
            spec = kind.methods[meth]
            if isinstance(spec, tuple) and spec[0] == "pure":
                if pos or kw:
                    return [(st, Exc("TypeError", self.line(node), f"{meth}() takes no arguments"))]
                r = spec[1].wrap(kind.method_fn(meth)(f.self_val.t))
                for fct in spec[1].wf(r):
                    st.assume(fct)
                if len(spec) > 2:                       # facts(recv, result): the callee's own (assumed) contract
                    for fct in spec[2](f.self_val, r):
                        st.assume(fct)
                return [(st, r)]
            return spec(self, st, f.self_val, pos, kw, node)
        if f.what == "bound":
            return self.call_method(st, f.self_val, f.payload, pos, kw, node, star)
        if f.what in ("module", "builtin"):
            name = f.payload
            unit_c = self.contract_stack[-1] if self.contract_stack else None
            h = (unit_c.opaque.get("stub:" + name) if unit_c is not None else None) or self.stubs.get(name)
            if h is None:
                raise Unsupported(f"call of unmodelled {name} at line {self.line(node)}")
            self.ctx.stub_uses.add(name)
            return h(self, st, pos, kw, node, star)
        raise Unsupported(f"call of {f!r}")

    # ------------------------------------------------------------ functions
    def bind_args(self, fi, pos, kw, node):
        """-> (env dict) or Exc(TypeError) following Python's binding rules"""
        a = fi.node.args
        params = [x.arg for x in a.posonlyargs + a.args]
        defaults = a.defaults
        env = {}
        if len(pos) > len(params) and a.vararg is None:
            return Exc("TypeError", self.line(node), "too many positional arguments")
        for p, v in zip(params, pos):
            env[p] = v
        if a.vararg is not None:
            env[a.vararg.arg] = VTuple(pos[len(params):])
        extra = {}
        for k, v in kw.items():
            if k in env:
                return Exc("TypeError", self.line(node), f"multiple values for {k}")
            if k in params or k in [x.arg for x in a.kwonlyargs]:
                env[k] = v
            elif a.kwarg is not None:
                extra[k] = v
            else:
                return Exc("TypeError", self.line(node), f"unexpected keyword {k}")
        if a.kwarg is not None:
            env[a.kwarg.arg] = ("$kwargs", extra)
        dstart = len(params) - len(defaults)
        for i, p in enumerate(params):
            if p not in env:
                if i >= dstart:
                    env[p] = ("$default", defaults[i - dstart])
                else:
                    return Exc("TypeError", self.line(node), f"missing argument {p}")
        for x, d in zip(a.kwonlyargs, a.kw_defaults):
            if x.arg not in env:
                if d is None:
                    return Exc("TypeError", self.line(node), f"missing keyword-only {x.arg}")
                env[x.arg] = ("$default", d)
        return env

    def call_function(self, st, fi, pos, kw, node, closure_env=None):
        if fi.foreign_decorators():
            raise Unsupported(f"{fi.key} is decorated with {fi.foreign_decorators()}: a wrapper (cache, ...) whose behaviour "
                              "is not that of the body")
        env = self.bind_args(fi, pos, kw, node)
        if isinstance(env, Exc):
            return [(st, env)]
        # defaults are evaluated in the callee's module scope
        for k, v in list(env.items()):
            if isinstance(v, tuple) and v and v[0] == "$default":
                self.fn_stack.append(fi)
                saved = st.env
                st.env = {}
                try:
                    env[k] = self.eval_pure(st, v[1])
                finally:
                    st.env = saved
                    self.fn_stack.pop()
            elif isinstance(v, tuple) and v and v[0] == "$kwargs":
                o = HeapObj("inst", cls="$dict", fields=dict(v[1]))
                env[k] = st.alloc(o)
        unit_c = self.contract_stack[-1] if self.contract_stack else None
        if unit_c is not None and fi.key in unit_c.opaque:
            self.ctx.stub_uses.add("opaque:" + fi.key)
            return unit_c.opaque[fi.key](self, st, env, node)
        c = self.contracts.get(fi.key)
        if c is not None and c.result_kind is not None and not self.force_inline(fi):
            return self.apply_contract(st, fi, c, env, node)
        return self.inline(st, fi, env, node, closure_env)

    def force_inline(self, fi):
        # the unit under verification itself is executed, never replaced by its contract
        return len(self.fn_stack) == 0

    def inline(self, st, fi, env, node, closure_env=None):
        if len(self.fn_stack) >= MAX_INLINE_DEPTH or sum(1 for f in self.fn_stack if f.key == fi.key) >= 2:
            raise Unsupported(f"recursion / inline depth at {fi.key}; a contract with a result kind is needed")
        self.ctx.inlined.add(fi.key)
        if closure_env is not None:
            env["$closure"] = closure_env
        st.frames.append(st.env)
        st.env = env
        self.fn_stack.append(fi)
        self.loop_counters.append([0, 0])
        try:
            results = self.exec_block(st, fi.node.body)
        finally:
            self.fn_stack.pop()
            self.loop_counters.pop()
        out = []
        for s, oc in results:
            s.env = s.frames.pop()
            if isinstance(oc, Return):
                out.append((s, oc.value))
            elif isinstance(oc, Normal):
                out.append((s, VNone()))
            elif isinstance(oc, Raise):
                out.append((s, oc.exc))
            else:
                raise Unsupported("break/continue escaped a function body")
        return out

    def apply_contract(self, st, fi, c, env, node):
        """assert-pre / havoc-frame / assume-post (callee body not consulted)"""
        self.ctx.contract_uses.add(fi.key)
        # coerce arguments to declared kinds
        args = {}
        for name, kind in c.params:
            v = env.get(name)
            if isinstance(kind, (CellOf,)):
                args[name] = v
            elif isinstance(kind, ObjSpec):
                args[name] = v
            else:
                args[name] = ops.coerce(st, v, kind)
        A = View(st, args)
        for fn in c._requires:
            for label, f in fn(A):
                self.ctx.oblige(f"{self.unit_name()}/call:{fi.qualname}/requires:{label}/L{self.line(node)}",
                                st, f, "call-pre", self.line(node))
        res = c.result_kind.fresh(self.ctx, "r_" + fi.node.name)
        for f in c.result_kind.wf(res):
            st.assume(f)
        outs = []
        # exceptional exits (decided on the pre-state)
        for exc, when in c._raises.items():
            cond = when(A)
            if self.feasible(st, cond):
                s2 = st.fork()
                s2.assume(cond)
                outs.append((s2, Exc(exc, self.line(node))))
            st.assume(z3.Not(cond))
        # havoc the declared frame, keep a snapshot for old-state references
        if c.modifies:
            pre = st.fork()
            A = View(pre, {k: (pre.env.get(k) if False else v) for k, v in args.items()})
            for path in c.modifies:
                parts = path.split(".")
                cur = args[parts[0]]
                for fld in parts[1:]:
                    cur = st.heap[cur.oid].fields[fld]
                if not ops.is_cell(st, cur):
                    raise Unsupported(f"modifies path {path} of {fi.key} is not a container cell at this call site")
                o = st.heap[cur.oid]
                kind = o.val.kind
                if kind is None:
                    raise Unsupported(f"cannot havoc {path}: kind unknown")
                new = kind.fresh(self.ctx, "post_" + parts[-1])
                if isinstance(o.val, VMap):
                    new.default = o.val.default
                for f in kind.wf(new):
                    st.assume(f)
                o.val = new

        class _R:
            result = res
            raw_result = res
            new = View(st, args)
            log = ()
        _R.st = st
        for fn, _ in c._ensures:
            for label, f in fn(A, _R):
                st.assume(f)
        outs.append((st, res))
        return outs

    def freeze_record(self, st, x, kind):
        """snapshot a concrete-shape dict/object as a record value of a TupleKey kind"""
        if isinstance(x, VAtom) and x.kind == kind:
            return x
        if not (isinstance(x, VObj) and st.heap[x.oid].k == "inst"):
            raise Unsupported(f"cannot store {x!r} in a list of {kind.name}")
        flds = st.heap[x.oid].fields
        items = []
        for name, k in kind.fields:
            if name not in flds:
                raise Unsupported(f"record field '{name}' missing")
            items.append(ops.coerce(st, flds[name], k, self.ctx))
        return kind.pack(items)

    def unit_name(self):
        return self.ctx.unit or "?"

    # ------------------------------------------------------------ classes
    def construct(self, st, clsname, pos, kw, node):
        unit_c = self.contract_stack[-1] if self.contract_stack else None
        if unit_c is not None and ("class:" + clsname) in unit_c.opaque:
            self.ctx.stub_uses.add("opaque:class:" + clsname)
            return unit_c.opaque["class:" + clsname](self, st, pos, kw, node)
        h = self.stubs.get("class:" + clsname)
        if h is not None:
            return h(self, st, pos, kw, node, None)
        ci = self.index.class_by_name.get(clsname)
        if ci is None:
            raise Unsupported(f"construction of unknown class {clsname}")
        obj = st.alloc(HeapObj("inst", cls=clsname, fields={}))
        init = self.index.find_method(clsname, "__init__")
        if init is None:
            # dataclass-style: fields from annotations across the mro (base first)
            fields = []
            for c in reversed(self.index.mro(clsname)):
                cc = self.index.class_by_name.get(c)
                if cc:
                    fields.extend(cc.fields)
            it = iter(pos)
            for name, default in fields:
                init_false = default is not None and isinstance(default, ast.Call) and any(
                    k.arg == "init" and isinstance(k.value, ast.Constant) and k.value.value is False
                    for k in default.keywords)
                if not init_false:
                    try:
                        st.heap[obj.oid].fields[name] = next(it)
                        continue
                    except StopIteration:
                        if name in kw:
                            st.heap[obj.oid].fields[name] = kw[name]
                            continue
                if default is None:
                    return [(st, Exc("TypeError", self.line(node), f"missing field {name}"))]
                st.heap[obj.oid].fields[name] = self.dataclass_default(st, default)
            return [(st, obj)]
        out = []
        for s, r in self.call_function(st, init, [obj] + pos, kw, node):
            out.append((s, r if isinstance(r, Exc) else obj))
        return out

    def dataclass_default(self, st, default):
        if isinstance(default, ast.Call) and getattr(default.func, "id", "") == "field":
            for k in default.keywords:
                if k.arg == "default":
                    return self.eval_pure(st, k.value)
                if k.arg == "default_factory":
                    fac = getattr(k.value, "id", None)
                    if fac == "list":
                        return st.alloc(HeapObj("cell", val=VEmptySeq()))
                    if fac == "dict":
                        return st.alloc(HeapObj("cell", val=VEmptyMap()))
                    if fac == "set":
                        return st.alloc(HeapObj("cell", val=VEmptySet()))
            raise Unsupported("dataclass field() without default")
        return self.eval_pure(st, default)

    # ------------------------------------------------------------ methods on values
    def call_method(self, st, recv, meth, pos, kw, node, star=None):
        h = self.stubs.get("method:" + meth)
        cell = recv if ops.is_cell(st, recv) else None
        v = ops.deref(st, recv)
        if isinstance(v, VOpt):
            v = v.get()
        line = self.line(node)

        def setcell(s, newval):
            if cell is None:
                raise Unsupported(f"mutating method .{meth} on a borrowed/immutable value at line {line}")
            s.heap[cell.oid].val = newval

        # ---- sets
        if isinstance(v, (VSet, VEmptySet)):
            if meth == "add":
                x = ops.deref(st, pos[0])
                base = v.to(x.kind) if isinstance(v, VEmptySet) else v
                setcell(st, base.add(ops.coerce(st, x, base.elem)))
                return [(st, VNone())]
            if meth == "copy":
                return [(st, st.alloc(HeapObj("cell", val=v)))]
            if meth in ("union", "update"):
                acc = v
                for a, sflag in zip(pos, star or [False] * len(pos)):
                    av = ops.deref(st, a)
                    if sflag:
                        if isinstance(av, VComp) and av.over[0] == "mapkeys":
                            u = union_of_keys(av.over[1])
                        elif isinstance(av, VComp):
                            raise Unsupported("union(*comprehension)")
                        elif isinstance(av, (VSeq, VTuple)) and av.items is not None:
                            for it in av.items:
                                acc = _set_union(st, acc, ops.deref(st, it))
                            continue
                        else:
                            raise Unsupported(f"union(*{av!r})")
                        acc = _set_union(st, acc, u)
                    else:
                        acc = _set_union(st, acc, av)
                if meth == "update":
                    setcell(st, acc)
                    return [(st, VNone())]
                return [(st, st.alloc(HeapObj("cell", val=acc)))]
            if meth == "difference_update":
                o = ops.deref(st, pos[0])
                if isinstance(v, VEmptySet):
                    return [(st, VNone())]
                o = ops.coerce(st, o, v.kind)
                x = z3.Const("x!du", v.elem.sort())
                nv = VSet(v.elem, z3.Lambda([x], z3.And(v.t[x], z3.Not(o.t[x]))))
                for fct in bigop.subset_facts(nv.t, v.t):
                    st.assume(fct)
                setcell(st, nv)
                return [(st, VNone())]
            if meth == "pop":
                if isinstance(v, VEmptySet):
                    return [(st, Exc("KeyError", line))]
                outs = []
                t, f = self.split(st, z3.Not(v.is_empty()))
                if t:
                    x = v.elem.fresh(self.ctx, "popped")
                    t.assume(v.contains(x))
                    vv = ops.deref(t, recv)
                    t.heap[cell.oid].val = VSet(v.elem, z3.Store(vv.t, x.t, z3.BoolVal(False)))
                    outs.append((t, x))
                if f:
                    outs.append((f, Exc("KeyError", line)))
                return outs
        # ---- maps
        if isinstance(v, (VMap, VEmptyMap)):
            if meth in ("keys", "values", "items"):
                if isinstance(v, VEmptyMap):
                    return [(st, VEmptySeq())]
                return [(st, VComp(None, None, None, ("map" + meth, v)))]
            if meth == "get":
                if isinstance(v, VEmptyMap):
                    return [(st, pos[1] if len(pos) > 1 else VNone())]
                k = ops.coerce(st, ops.deref(st, pos[0]), v.key)
                dflt = pos[1] if len(pos) > 1 else VNone()
                return self.guarded(st, [(v.has(k), v.get(k)), (z3.Not(v.has(k)), dflt)])
            if meth == "copy":
                return [(st, st.alloc(HeapObj("cell", val=v)))]
        # ---- sequences
        if isinstance(v, (VSeq, VEmptySeq, VTuple)):
            if meth in ("append", "extend") and isinstance(v, VSeq) and isinstance(v.elem, TupleKey):
                xs = [pos[0]] if meth == "append" else None
                if xs is None:
                    o = ops.deref(st, pos[0])
                    if isinstance(o, VEmptySeq):
                        return [(st, VNone())]
                    if not (isinstance(o, (VTuple, VSeq)) and o.items is not None):
                        raise Unsupported("extend of a record list with a symbolic list")
                    xs = o.items
                cur = v
                for x in xs:
                    cur = cur.append(self.freeze_record(st, x, v.elem))
                setcell(st, cur)
                return [(st, VNone())]
            if meth == "append":
                x = pos[0]
                if isinstance(v, VTuple):
                    setcell(st, VTuple(v.items + [x]))
                    return [(st, VNone())]
                xv = ops.deref(st, x)
                if isinstance(xv, VObj) or getattr(xv, "kind", None) is None or isinstance(xv, (VTuple,)):
                    if isinstance(v, VEmptySeq):
                        setcell(st, VTuple([x]))
                        return [(st, VNone())]
                    raise Unsupported(f"append of {xv!r} to a symbolic sequence")
                base = v.to(xv.kind) if isinstance(v, VEmptySeq) else v
                xv = ops.coerce(st, xv, base.elem)
                setcell(st, base.append(xv))
                return [(st, VNone())]
            if meth == "extend":
                o = ops.deref(st, pos[0])
                if isinstance(o, VOpt):
                    o = o.get()             # `x is not None` was tested on this path (None.extend would be a TypeError)
                if isinstance(o, VEmptySeq):
                    return [(st, VNone())]
                if isinstance(v, VTuple) or isinstance(o, VTuple):
                    ov = o.items if hasattr(o, "items") and o.items is not None else None
                    if ov is None:
                        raise Unsupported("extend with symbolic sequence on object list")
                    base_items = v.items if not isinstance(v, VEmptySeq) else []
                    if isinstance(v, VSeq) and v.items is None:
                        raise Unsupported("extend symbolic sequence with object list")
                    setcell(st, VTuple(list(base_items) + list(ov)))
                    return [(st, VNone())]
                base = v.to(o.elem) if isinstance(v, VEmptySeq) else v
                setcell(st, base.concat(o))
                return [(st, VNone())]
            if meth == "copy":
                return [(st, st.alloc(HeapObj("cell", val=v)))]
            if meth == "pop" and not pos:
                if isinstance(v, VEmptySeq):
                    return [(st, Exc("IndexError", line))]
                if getattr(v, "items", None) is not None:
                    if not v.items:
                        return [(st, Exc("IndexError", line))]
                    last = v.items[-1]
                    setcell(st, VTuple(v.items[:-1]) if isinstance(v, VTuple) else VSeq.of(v.elem, v.items[:-1]))
                    return [(st, last)]
                n = v.length()
                outs = []
                t, f = self.split(st, n > 0)
                if t:
                    vv = ops.deref(t, recv)
                    t.heap[cell.oid].val = vv.sub(z3.IntVal(0), n - 1)
                    outs.append((t, v.at(n - 1)))
                if f:
                    outs.append((f, Exc("IndexError", line)))
                return outs
        # ---- strings
        if isinstance(v, VStr):
            r = str_method(self, st, v, meth, pos, kw, node)
            if r is not None:
                return r
        if h is not None:
            self.ctx.stub_uses.add("method:" + meth)
            return h(self, st, [recv] + pos, kw, node, star)
        raise Unsupported(f"method .{meth} on {v!r} at line {line}")


def _set_union(st, a, b):
    if isinstance(b, VOpt):
        b = b.get()
    if isinstance(b, (VEmptySet, VEmptySeq)):
        return a
    if isinstance(b, VSeq):
        b = ops.seq_to_set(b)
    if isinstance(a, VEmptySet):
        return b
    x = z3.Const("x!un", a.elem.sort())
    return VSet(a.elem, z3.Lambda([x], z3.Or(a.t[x], b.t[x])))


_union_keys = {}


def union_of_keys(m):
    """UnionKeys(dom): the union of all keys (sets) of a map, as an
    uninterpreted function with its two definitional axioms."""
    srt = m.dom.sort()
    key = str(srt)
    if key not in _union_keys:
        ks = srt.domain()            # Array(E,Bool)
        es = ks.domain()
        f = z3.Function("UnionKeys!" + "".join(c if c.isalnum() else "_" for c in key), srt, ks)
        d = z3.Const("uk!d", srt)
        k = z3.Const("uk!k", ks)
        e = z3.Const("uk!e", es)
        bigop.add_axiom(f.name(), z3.ForAll([d, e], z3.Implies(
            z3.Select(f(d), e), z3.Exists([k], z3.And(z3.Select(d, k), z3.Select(k, e)))),
            patterns=[z3.Select(f(d), e)]), "definition of union of keys (=>)")
        bigop.add_axiom(f.name(), z3.ForAll([d, k, e], z3.Implies(
            z3.And(z3.Select(d, k), z3.Select(k, e)), z3.Select(f(d), e)),
            patterns=[z3.MultiPattern(z3.Select(d, k), z3.Select(k, e), f(d))]),
            "definition of union of keys (<=)")
        bigop.add_axiom(f.name(), z3.ForAll([d], z3.Implies(bigop.fin(d), bigop.fin(f(d))),
                                            patterns=[f(d)]),
                        "Set.Finite.biUnion (finite union of finite sets; keys are finite sets)")
        _union_keys[key] = f
    return VSet(m.key.elem, _union_keys[key](m.dom))


def str_method(ex, st, v, meth, pos, kw, node):
    args = [ops.deref(st, a) for a in pos]
    if meth == "endswith" and isinstance(args[0], VStr):
        return [(st, VBool(z3.SuffixOf(args[0].t, v.t)))]
    if meth == "startswith" and isinstance(args[0], VStr):
        return [(st, VBool(z3.PrefixOf(args[0].t, v.t)))]
    if meth == "lower":
        c = concrete_str(v.t)
        if c is not None:
            return [(st, VStr(c.lower()))]
    if meth in ("isspace", "isalpha", "isdigit", "isalnum"):
        from .stubs import char_class
        return [(st, VBool(char_class(meth, v.t)))]
    if meth == "join":
        a = args[0]
        if isinstance(a, (VSeq, VTuple)) and getattr(a, "items", None) is not None:
            t = None
            for i, x in enumerate(a.items):
                x = ops.deref(st, x)
                t = x.t if t is None else z3.Concat(t, v.t, x.t)
            return [(st, VStr(t if t is not None else z3.StringVal("")))]
        if isinstance(a, VEmptySeq):
            return [(st, VStr(""))]
    return None
