"""Native bounded stand-in for C10: every model code base is analysed with and
without its exclusion list (and with headers outside the root): the attribution
of every line of every file is the same (and equals the reference), excluded
files contribute no lines to any platform set, and the remaining sets lose
exactly the excluded files' lines."""
import os

from codebasin import CodeBase
from codebasin.preprocessor import CodeNode
from native import sysrun
from native.systarget import SysTarget


def setmap_of(state, files):
    m = {}
    for f in files:
        tree, assoc = state.get_tree(f), state.get_map(f)
        for n in tree.walk():
            if isinstance(n, CodeNode):
                k = frozenset(assoc[n])
                m[k] = m.get(k, 0) + n.num_lines
    return m


class Exclusion(SysTarget):
    def compare(self, sb, case, cfg, exp, used, state):
        r = super().compare(sb, case, cfg, exp, used, state)      # attribution with the exclusion == reference
        if r:
            r["klass"] = self.name + ":attribution-changed-by-exclusion"
            return r
        src = sb.abs(case["codebase"])
        cb_ex = CodeBase(src, exclude_patterns=list(case["excludes"]))
        cb_all = CodeBase(src)
        _, st_all = sysrun.real_find(sb.root, cfg, [src], [])
        if sysrun.real_used(st_all) != used:
            return {"expected": "identical per-line attribution with and without the exclusion", "observed": "differs",
                    "klass": self.name + ":attribution-changed-by-exclusion"}
        mem_all = [f for f in sorted(cb_all) if not (os.path.islink(f) and os.path.realpath(f) in cb_all)]
        mem_ex = [f for f in sorted(cb_ex) if not (os.path.islink(f) and os.path.realpath(f) in cb_ex)]
        removed = [f for f in mem_all if f not in set(mem_ex)]
        # the files removed are exactly those the ORDERED pattern list matches (oracle: git check-ignore, A6)
        from native.C09 import git_ignored
        rels = {f: os.path.relpath(f, src).replace(os.sep, "/") for f in mem_all}
        ign = git_ignored(src, list(case["excludes"]), sorted(rels.values()))
        want_removed = [f for f in mem_all if rels[f] in ign]
        if want_removed != removed:
            return {"expected": f"removed by {case['excludes']}: {[rels[f] for f in want_removed]}",
                    "observed": f"{[rels[f] for f in removed]}", "klass": self.name + ":removed-files-are-not-the-matched-files"}
        got = dict(state.get_setmap(cb_ex))
        want = setmap_of(state, mem_ex)
        if got != want:
            return {"expected": "counts over the remaining members only", "observed": "differs", "klass": self.name + ":counts"}
        full = dict(st_all.get_setmap(cb_all))
        minus = setmap_of(st_all, removed)
        for k in set(full) | set(minus) | set(got):
            if full.get(k, 0) - minus.get(k, 0) != got.get(k, 0):
                return {"expected": f"set {sorted(k)}: {full.get(k, 0)} - {minus.get(k, 0)}", "observed": got.get(k, 0),
                        "klass": self.name + ":not-exactly-the-excluded-lines"}
        return None


TARGETS = {"codebasin.finder:ParserState.get_setmap": Exclusion("exclusion", ("exclude", "outside", "multi", "forced"),
                                                                quick_n=200, thorough_n=4000)}
