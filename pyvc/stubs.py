"""
pyvc.stubs -- builtins and library functions known to the executor.

Builtins over modelled values (len, any, all, sum, set, float ...) are part of
the Python-subset semantics (A1).  Everything registered with `assumed=True`
is a *stub contract on a dependency* (A4-A7) and is listed in the evidence.
"""
import ast
import z3

from .values import *  # noqa
from .state import *   # noqa
from . import ops, bigop
from .calls import union_of_keys

STUBS = {}
ASSUMED = {}


def stub(name, assumed=None):
    def reg(f):
        STUBS[name] = f
        if assumed:
            ASSUMED[name] = assumed
        return f
    return reg


def char_class(kind, t):
    """ASCII character classes on a 1-character string (A8)."""
    c = z3.StrToCode(t)
    if kind == "isspace":
        return z3.Or(c == 32, z3.And(c >= 9, c <= 13), z3.And(c >= 28, c <= 31))
    if kind == "isdigit":
        return z3.And(c >= 48, c <= 57)
    if kind == "isalpha":
        return z3.Or(z3.And(c >= 65, c <= 90), z3.And(c >= 97, c <= 122))
    if kind == "isalnum":
        return z3.Or(char_class("isdigit", t), char_class("isalpha", t))
    raise Unsupported(kind)


def _comp_closed(v):
    if getattr(v, "extra_pc", None):
        raise Unsupported("comprehension whose element depends on a call contract, outside sum()")


@stub("float")
def _float(ex, st, pos, kw, node, star):
    v = ops.deref(st, pos[0])
    if isinstance(v, VStr):
        c = concrete_str(v.t)
        if c is not None and c.lower() == "nan":
            return [(st, VFloat.nan())]
        raise Unsupported("float(str)")
    return [(st, ops.to_float(v))]


@stub("int")
def _int(ex, st, pos, kw, node, star):
    v = ops.deref(st, pos[0])
    if isinstance(v, (VInt, VBool)):
        return [(st, ops.to_int(v))]
    from . import pyint
    if pyint.is_npint(v):
        return [(st, VInt(pyint.val(v)))]
    raise Unsupported("int() of non-int")


@stub("numpy.int64", assumed="A2b np.int64(v): the Python int v tagged signed; OverflowError outside [-2**63, 2**63)")
def _np_int64(ex, st, pos, kw, node, star):
    from . import pyint
    return pyint.np_scalar(ex, st, pos, kw, node, False)


@stub("numpy.uint64", assumed="A2b np.uint64(v): the Python int v tagged unsigned; OverflowError outside [0, 2**64)")
def _np_uint64(ex, st, pos, kw, node, star):
    from . import pyint
    return pyint.np_scalar(ex, st, pos, kw, node, True)


@stub("abs")
def _abs(ex, st, pos, kw, node, star):
    v = ops.deref(st, pos[0])
    if isinstance(v, (VInt, VBool)):
        t = ops.to_int(v).t
        return [(st, VInt(z3.If(t >= 0, t, -t)))]
    raise Unsupported("abs() of non-int")


@stub("bool")
def _bool(ex, st, pos, kw, node, star):
    return [(st, VBool(ops.truth(st, pos[0])))]


@stub("str")
def _str(ex, st, pos, kw, node, star):
    v = ops.deref(st, pos[0])
    if isinstance(v, VStr):
        return [(st, v)]
    if isinstance(v, VAtom) and v.kind.name in ("Path", "PathStr"):
        from .fsmodel import path_str
        return [(st, path_str(v))]
    raise Unsupported(f"str() of {v!r}")


@stub("len")
def _len(ex, st, pos, kw, node, star):
    v = ops.deref(st, pos[0])
    if isinstance(v, VComp):
        raise Unsupported("len of comprehension")
    n, facts = ops.length(st, v)
    for f in facts:
        st.assume(f)
    return [(st, VInt(n))]


@stub("set")
def _set(ex, st, pos, kw, node, star):
    if not pos:
        return [(st, st.alloc(HeapObj("cell", val=VEmptySet())))]
    v = _to_set(ex, st, pos[0])
    return [(st, st.alloc(HeapObj("cell", val=v)))]


@stub("frozenset")
def _frozenset(ex, st, pos, kw, node, star):
    if not pos:
        return [(st, VEmptySet())]
    return [(st, _to_set(ex, st, pos[0]))]


def _to_set(ex, st, a):
    v = ops.deref(st, a)
    if isinstance(v, VOpt):
        v = v.get()
    if isinstance(v, (VSet, VEmptySet)):
        return v
    if isinstance(v, VEmptySeq):
        return VEmptySet()
    if isinstance(v, VSeq):
        return ops.seq_to_set(v)
    if isinstance(v, VComp):
        if v.over[0] == "chainkeys":
            return union_of_keys(v.over[1])
        if v.over[0] == "mapkeys":
            m = v.over[1]
            return VSet(m.key, m.dom)
        if v.over[0] == "set" and v.elem is not None:
            _comp_closed(v)
            raise Unsupported("set(comprehension) image")
        if v.over[0] == "setvalues":
            return v.over[1]
    raise Unsupported(f"set() of {v!r}")


@stub("list")
def _list(ex, st, pos, kw, node, star):
    if not pos:
        return [(st, st.alloc(HeapObj("cell", val=VEmptySeq())))]
    v = ops.deref(st, pos[0])
    if isinstance(v, VSeq) or isinstance(v, VEmptySeq) or isinstance(v, VTuple):
        return [(st, st.alloc(HeapObj("cell", val=v)))]
    if isinstance(v, VEmptySet):
        return [(st, st.alloc(HeapObj("cell", val=VEmptySeq())))]
    if isinstance(v, VSet):
        # an arbitrary duplicate-free enumeration of the set (order universally quantified)
        s = SeqOf(v.elem).fresh(ex.ctx, "enum")
        x = z3.Const(ex.ctx.fresh_name("ex"), v.elem.sort())
        i, j = z3.Ints(ex.ctx.fresh_name("ei") + " " + ex.ctx.fresh_name("ej"))
        st.assume(s.n >= 0)
        st.assume(z3.ForAll([x], s.has(x) == v.t[x]))
        st.assume(z3.ForAll([i, j], z3.Implies(z3.And(0 <= i, i < j, j < s.n), s.arr[i] != s.arr[j])))
        st.assume(s.n == bigop.card(v.t))
        st.ghost[("enum_of", s.arr.get_id())] = v
        return [(st, st.alloc(HeapObj("cell", val=s)))]
    raise Unsupported(f"list() of {v!r}")


@stub("isinstance")
def _isinstance(ex, st, pos, kw, node, star):
    v = pos[0]
    cls = pos[1]
    names = []
    for c in (cls.items if isinstance(cls, VTuple) else [cls]):
        if isinstance(c, VFunc) and c.what in ("class", "builtin", "module"):
            names.append(str(c.payload).split(".")[-1])
        else:
            raise Unsupported("isinstance with computed class")
    vv = ops.deref(st, v)
    if isinstance(v, VObj) and st.heap[v.oid].k == "inst":
        cn = st.heap[v.oid].cls
        return [(st, VBool(any(ex.index.is_subclass(cn, n) for n in names)))]
    table = {"str": (VStr,), "int": (VInt, VBool), "bool": (VBool,), "float": (VFloat,),
             "list": (VSeq, VEmptySeq), "set": (VSet, VEmptySet), "dict": (VMap, VEmptyMap),
             "Path": (), "PathLike": (), "Integral": (VInt, VBool)}
    from . import pyint
    if pyint.is_npint(vv) and all(n in ("uint64", "int64") for n in names):
        u = pyint.unsigned(vv)
        return [(st, VBool(z3.Or([u if n == "uint64" else z3.Not(u) for n in names])))]
    if isinstance(vv, VAtom) and isinstance(vv.kind, Abstract):
        ts = []
        for n in names:
            if "isa:" + n not in vv.kind.attrs:
                raise Unsupported(f"isinstance({vv.kind.name}, {n}) not declared by the contract")
            ts.append(z3.Function(f"{vv.kind.name}.isa:{n}", vv.kind.sort(), z3.BoolSort())(vv.t))
        return [(st, VBool(z3.Or(ts)))]
    if isinstance(vv, VAtom):
        return [(st, VBool(any(n in ("Path", "PathLike") and vv.kind.name == "Path" or
                               n == "str" and vv.kind.name == "PathStr" for n in names)))]
    if all(n in table for n in names):
        return [(st, VBool(any(isinstance(vv, table[n]) for n in names)))]
    if isinstance(vv, (VStr, VInt, VBool, VFloat, VSeq, VSet, VMap, VNone)):
        return [(st, VBool(False))]
    raise Unsupported(f"isinstance({vv!r}, {names})")


@stub("callable")
def _callable(ex, st, pos, kw, node, star):
    return [(st, VBool(isinstance(pos[0], VFunc)))]


@stub("any")
def _any(ex, st, pos, kw, node, star):
    return _quant(ex, st, pos[0], False)


@stub("all")
def _all(ex, st, pos, kw, node, star):
    return _quant(ex, st, pos[0], True)


def _quant(ex, st, a, is_all):
    v = ops.deref(st, a)
    if isinstance(v, VEmptySeq):
        return [(st, VBool(is_all))]
    if isinstance(v, (VSeq, VTuple)) and getattr(v, "items", None) is not None:
        ts = [ops.truth(st, x) for x in v.items]
        return [(st, VBool(z3.And(ts) if is_all else z3.Or(ts)) if ts else VBool(is_all))]
    if isinstance(v, VComp) and v.elem is not None:
        _comp_closed(v)
        b = v.bound_consts
        e = ops.truth(st, v.elem)
        if is_all:
            return [(st, VBool(z3.ForAll(b, z3.Implies(v.dom, e))))]
        return [(st, VBool(z3.Exists(b, z3.And(v.dom, e))))]
    raise Unsupported(f"any/all of {v!r}")


def call_ordinal(ex, node, fname):
    fi = ex.fn_stack[-1]
    calls = [n for n in ast.walk(fi.node)
             if isinstance(n, ast.Call) and isinstance(n.func, ast.Name) and n.func.id == fname]
    calls.sort(key=lambda n: (n.lineno, n.col_offset))
    for i, c in enumerate(calls):
        if c is node:
            return i
    return None


@stub("sum")
def _sum(ex, st, pos, kw, node, star):
    v = ops.deref(st, pos[0])
    if isinstance(v, VEmptySeq):
        return [(st, VInt(0))]
    if isinstance(v, (VSeq, VTuple)) and getattr(v, "items", None) is not None:
        acc = VInt(0)
        for x in v.items:
            (_, acc), = [(c, r) for c, r in ops.binop(st, "+", acc, x) if c is None]
        return [(st, acc)]
    c = ex.current_contract()
    o = call_ordinal(ex, node, "sum")
    spec = c.sums.get(o) if c else None
    if spec is None:
        raise Unsupported(f"sum() #{o} at line {node.lineno} in {ex.fn_stack[-1].key} needs a SumSpec")
    A = ex.entry_views[-1]
    if isinstance(v, VComp) and v.over[0] == "set" and v.elem is not None:
        S = v.over[1]
        want = spec.summand(A, v.bound)          # z3 term: Float or Int
        got = ops.deref(st, v.elem)
        if want.sort() == FLOAT.sort():
            got = ops.to_float(got)
        ex.ctx.oblige(f"{ex.unit_name()}/{ex.fn_stack[-1].node.name}/sum{o}/summand-matches-spec",
                      v.state, got.t == want, "sum-congr", node.lineno)
        bigop._lemma_uses.append((f"sum{o}@{ex.fn_stack[-1].key}", "Finset.sum_congr"))
        total = spec.value(A, S)                 # Real/Int big-sum term over S
        if want.sort() == FLOAT.sort():
            x = v.bound.t
            fs = FLOAT.sort()
            anynan = z3.Exists([x], z3.And(S.t[x], fs.is_NaN(want)))
            return [(st, VFloat(z3.If(anynan, fs.NaN, fs.Fin(total))))]
        return [(st, VInt(total))]
    if isinstance(v, VComp) and v.over[0] == "mapvalues":
        m = v.over[1]
        return [(st, spec.value(A, m))]
    raise Unsupported(f"sum of {v!r}")


@stub("sorted")
def _sorted(ex, st, pos, kw, node, star):
    v = ops.deref(st, pos[0])
    if isinstance(v, (VSeq, VTuple)) and getattr(v, "items", None) is not None and len(v.items) <= 1:
        return [(st, st.alloc(HeapObj("cell", val=v)))]
    if isinstance(v, VOpt) and isinstance(v.kind.inner, SetOf):
        # sorted(None) raises TypeError: that it cannot happen on this path is an obligation of its own
        ex.ctx.oblige(f"{ex.unit_name()}/no-TypeError/L{node.lineno}:sorted-of-None", st, z3.Not(v.is_none()), "no-raise", node.lineno)
        st.assume(z3.Not(v.is_none()))
        return _list(ex, st, [v.get()], kw, node, star)
    if isinstance(v, (VSet, VEmptySet)) and len(pos) == 1 and not kw:
        # sorted(a set): a duplicate-free enumeration of the set; WHICH order is abstracted (any order), so nothing
        # proved about the result relies on the sorting itself
        return _list(ex, st, pos, kw, node, star)
    raise Unsupported("sorted() of symbolic collection")


@stub("min")
def _min(ex, st, pos, kw, node, star):
    a, b = ops.to_int(ops.deref(st, pos[0])).t, ops.to_int(ops.deref(st, pos[1])).t
    return [(st, VInt(z3.If(a <= b, a, b)))]


@stub("max")
def _max(ex, st, pos, kw, node, star):
    a, b = ops.to_int(ops.deref(st, pos[0])).t, ops.to_int(ops.deref(st, pos[1])).t
    return [(st, VInt(z3.If(a >= b, a, b)))]


@stub("enumerate")
def _enumerate(ex, st, pos, kw, node, star):
    start = kw.get("start", pos[1] if len(pos) > 1 else VInt(0))
    cs = concrete_int(start.t)
    if cs is None:
        raise Unsupported("enumerate with symbolic start")
    inner = ops.deref(st, pos[0])
    return [(st, VComp(None, None, None, ("enumerate", inner, cs)))]


@stub("range")
def _range(ex, st, pos, kw, node, star):
    if len(pos) == 1:
        lo, hi = z3.IntVal(0), ops.deref(st, pos[0]).t
    else:
        lo, hi = ops.deref(st, pos[0]).t, ops.deref(st, pos[1]).t
    return [(st, VComp(None, None, None, ("range", lo, hi)))]


@stub("reversed")
def _reversed(ex, st, pos, kw, node, star):
    v = ops.deref(st, pos[0])
    if isinstance(v, (VSeq, VTuple)) and getattr(v, "items", None) is not None:
        items = list(reversed(v.items))
        return [(st, VTuple(items))]
    raise Unsupported("reversed of symbolic sequence")


@stub("itertools.chain.from_iterable")
def _chain_from_iterable(ex, st, pos, kw, node, star):
    v = ops.deref(st, pos[0])
    if isinstance(v, VComp) and v.over[0] == "mapkeys":
        return [(st, VComp(None, None, None, ("chainkeys", v.over[1])))]
    raise Unsupported("chain.from_iterable of non-keys")


@stub("itertools.combinations")
def _combinations(ex, st, pos, kw, node, star):
    """combinations(seq, 2) over a duplicate-free enumeration of a set S:
    every 2-subset {a,b} of S exactly once, as a tuple in unspecified
    orientation (over-approximates the order itertools uses)."""
    r = concrete_int(ops.deref(st, pos[1]).t)
    if r != 2:
        raise Unsupported("combinations with r != 2")
    v = ops.deref(st, pos[0])
    src = st.ghost.get(("enum_of", v.arr.get_id())) if isinstance(v, VSeq) else None
    if src is None:
        raise Unsupported("combinations over a sequence that is not a known set enumeration")
    from . import speclib
    pairs = speclib.pairs_of(src)           # VSet of 2-subsets (each a set)
    E = src.elem

    def mk(q):
        a = E.fresh(ex.ctx, "pa")
        b = E.fresh(ex.ctx, "pb")
        return VTuple([a, b])

    def extra(q, elem):
        a, b = elem.items
        return [a.t != b.t, src.contains(a), src.contains(b),
                q.t == z3.Store(z3.Store(z3.K(E.sort(), z3.BoolVal(False)), a.t, z3.BoolVal(True)), b.t, z3.BoolVal(True))]
    return [(st, VComp(None, None, None, ("pairs", pairs, mk, extra)))]


@stub("logging.logger.debug")
@stub("logging.logger.info")
def _log_noop(ex, st, pos, kw, node, star):
    return [(st, VNone())]


LOGREC = TupleKey("logrec", [("level", INT), ("msg", STR)])
LEVELS = {"warning": 30, "error": 40, "critical": 50}


def log_cell(st):
    c = st.ghost.get("log_cell")
    if c is None:
        c = st.alloc(HeapObj("cell", val=VSeq.of(LOGREC, [])))
        st.ghost["log_cell"] = c
    return c


def _log_record(level):
    def h(ex, st, pos, kw, node, star):
        msg = ops.deref(st, pos[0])
        lg = st.ghost.get("log", ())
        st.ghost["log"] = lg + ((level, msg, node.lineno),)
        c = log_cell(st)
        if isinstance(msg, VStr):
            st.heap[c.oid].val = st.heap[c.oid].val.append(LOGREC.pack([VInt(LEVELS[level]), msg]))
        return [(st, VNone())]
    return h


@stub("logging.logger.isEnabledFor")
def _is_enabled_for(ex, st, pos, kw, node, star):
    # debug-only code paths are not verified (A7): DEBUG logging is taken to be disabled
    return [(st, VBool(False))]


@stub("dataclasses.asdict")
def _asdict(ex, st, pos, kw, node, star):
    v = pos[0]
    if isinstance(v, VAtom) and isinstance(v.kind, Abstract):
        flds = {}
        for a, k in v.kind.attrs.items():
            if a.startswith(("item:", "isa:", "__")):
                continue
            val = v.kind.attr(v, a)
            flds[a] = st.alloc(HeapObj("cell", val=val)) if isinstance(val, (VSeq, VSet, VMap)) else val
        return [(st, st.alloc(HeapObj("inst", cls="$dict", fields=flds)))]
    raise Unsupported("asdict of a non-abstract object")


for _lvl in ("warning", "error", "critical"):
    STUBS["logging.logger." + _lvl] = _log_record(_lvl)


@stub("tqdm.tqdm")
def _tqdm(ex, st, pos, kw, node, star):
    return [(st, pos[0])]


@stub("collections.defaultdict")
def _defaultdict(ex, st, pos, kw, node, star):
    fac = pos[0].payload if pos and isinstance(pos[0], VFunc) else None
    if fac not in ("set", "int", "list"):
        raise Unsupported(f"defaultdict({fac})")
    return [(st, st.alloc(HeapObj("cell", val=VEmptyDefault(fac))))]
