"""native/cli.py -- drive the three real front ends (codebasin, cbi-tree, cbi-cov) as
subprocesses on a materialised model code base and parse their outputs back."""
import json
import os
import re
import subprocess
import sys

REPO = os.environ.get("CBI_REPO", "/repo")


def write_inputs(sb, case, cfg_order=None, excludes_in_toml=None, tag=""):
    """writes <root>/db_<p>.json and <root>/analysis<tag>.toml ; returns toml path"""
    plats = list(case["platforms"])
    if cfg_order is not None:
        plats = list(cfg_order)
    lines = []
    if excludes_in_toml:
        lines += ["[codebase]", "exclude = [" + ", ".join(json.dumps(x) for x in excludes_in_toml) + "]", ""]
    for p in plats:
        db = []
        for e in case["platforms"][p]:
            argv = ["gcc", "-c"] + ["-D" + d for d in e["defines"]] + ["-I" + sb.abs(d) for d in e["include_paths"]]
            for inc in e["include_files"]:
                argv += ["-include", inc]
            argv.append(sb.abs(e["file"]))
            db.append({"directory": sb.root, "file": sb.abs(e["file"]), "arguments": argv})
        with open(os.path.join(sb.root, f"db_{p}.json"), "w") as fh:
            json.dump(db, fh)
        lines += [f"[platform.{p}]", f'commands = "db_{p}.json"', ""]
    path = os.path.join(sb.root, f"analysis{tag}.toml")
    with open(path, "w") as fh:
        fh.write("\n".join(lines))
    return path


_SITE = '''
import os
_real = os.scandir
class _Rev:
    def __init__(self, it):
        self._it = it
        self._l = sorted(list(it), key=lambda e: e.name, reverse=(os.environ.get("CBI_SCANDIR") == "reverse"))
    def __iter__(self):
        return iter(self._l)
    def __next__(self):
        raise StopIteration
    def __enter__(self):
        return self
    def __exit__(self, *a):
        self._it.close()
    def close(self):
        self._it.close()
def scandir(path="."):
    return _Rev(_real(path))
if os.environ.get("CBI_SCANDIR"):
    os.scandir = scandir
'''


def run(module, args, cwd, hashseed=None, timeout=120, scandir=None):
    env = dict(os.environ)
    env["PYTHONPATH"] = REPO
    if scandir:
        # interpose on os.scandir (directory enumeration order) through a sitecustomize module
        site = os.path.join(cwd, ".cbi_site")
        os.makedirs(site, exist_ok=True)
        with open(os.path.join(site, "sitecustomize.py"), "w") as fh:
            fh.write(_SITE)
        env["PYTHONPATH"] = site + os.pathsep + REPO
        env["CBI_SCANDIR"] = scandir
    env["PYTHONWARNINGS"] = "ignore"
    if hashseed is not None:
        env["PYTHONHASHSEED"] = str(hashseed)
    p = subprocess.run([sys.executable, "-m", module] + args, cwd=cwd, env=env, capture_output=True, text=True, timeout=timeout)
    return p.returncode, p.stdout, p.stderr


def parse_summary(out):
    """-> ({frozenset(platforms): (loc, percent str)}, total sloc, {metric: str})"""
    rows = {}
    for m in re.finditer(r"│\s*\{(.*?)\}\s*│\s*(\d+)\s*│\s*([\d.]+|nan)\s*│", out):
        names = frozenset(x.strip() for x in m.group(1).split(",") if x.strip())
        rows[names] = (int(m.group(2)), m.group(3))
    tot = re.search(r"Total SLOC: (\d+)", out)
    metrics = {}
    for k in ("Code Divergence", r"Coverage \(%\)", r"Avg. Coverage \(%\)"):
        mm = re.search(k + r": ([\d.]+|nan)", out)
        metrics[k] = mm.group(1) if mm else None
    return rows, int(tot.group(1)) if tot else None, metrics


def parse_tree(out):
    """-> list of (depth-ish prefix length, name, sloc string, platforms string) for each row"""
    rows = []
    for line in out.splitlines():
        m = re.match(r"\[(.*?) \| \s*(\S+) \| \s*(\S+) \| \s*(\S+)\] (.*)$", line)
        if m:
            rows.append({"platforms": m.group(1), "sloc": m.group(2), "cov": m.group(3), "avg": m.group(4), "name": m.group(5)})
    return rows
