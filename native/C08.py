"""Native bounded stand-in for C08: multi-platform / multi-entry model code bases
analysed in one run, in the given order and with platforms and entries
reversed, each compared per platform with the reference preprocessor applied
to every entry alone from a fresh macro/include state (so isolation,
projection under -p and order independence are all consequences)."""
import os

from native import gen, sysrun
from native.systarget import SysTarget


class Isolation(SysTarget):
    def compare(self, sb, case, cfg, exp, used, state):
        r = super().compare(sb, case, cfg, exp, used, state)
        if r:
            return r
        # reversed platform and entry order
        rcfg = {p: list(reversed(cfg[p])) for p in reversed(list(cfg))}
        _, st2 = sysrun.real_find(sb.root, rcfg, [sb.abs(case["codebase"])], case["excludes"])
        r = super().compare(sb, case, rcfg, exp, sysrun.real_used(st2), st2)
        if r:
            r["klass"] = self.name + ":order-dependent"
            return r
        # projection: every platform analysed alone gives the same lines
        for p in cfg:
            _, st3 = sysrun.real_find(sb.root, {p: cfg[p]}, [sb.abs(case["codebase"])], case["excludes"])
            r = super().compare(sb, case, {p: cfg[p]}, exp, sysrun.real_used(st3), st3)
            if r:
                r["klass"] = self.name + ":projection-differs"
                return r
        return None


TARGETS = {"codebasin.finder:find@loop4": Isolation("isolation", ("multi", "forced", "computed"), quick_n=250, thorough_n=4000)}


# ---- a fixed program on which expansion in one translation unit used to write into the shared parse tree of a header ----
from native import recorded as _R      # noqa: E402


class SharedTree:
    """[a.c, b.c] == [b.c, a.c] == union of the two commands alone, for a header whose computed #include goes through
    ## and # (the pasted token's white-space flag lives in the header's cached tree)"""
    proved = False
    role = "bounded check: one fixed program, every order / split of its two commands"

    def bound(self, tier):
        return "1 fixed program x (2 orders + 2 single-command runs + 2 platforms)"

    def inputs(self, tier, seed):
        yield {"k": 0}

    def nontrivial(self, inp):
        return True

    FILES = {"sel.h": "#define STR_(x) #x\n#define STR(x) STR_(x)\n#include STR(IMPL(impl/k,_cpu,))\n",
             "impl/k_cpu.h": "int cpu_kernel;\n", "gen/impl/k.h": "int generic_kernel;\n",
             "a.c": "#define EMPTY\n#define IMPL(a,b,c) EMPTY a##b.h\n#include \"sel.h\"\n",
             "b.c": "#define IMPL(a,b,c) gen/c##a.h\n#include \"sel.h\"\n"}

    def check(self, inp):
        import os
        with _R.tree(self.FILES) as root:
            def e(n):
                return {"file": os.path.join(root, n), "defines": [], "include_paths": [], "include_files": []}

            def used(entries):
                return {(f, ln) for f, ls in _R.used_lines(root, entries).items() for ln in ls}
            want = used([e("a.c")]) | used([e("b.c")])
            for label, cmds in (("[a.c, b.c]", [e("a.c"), e("b.c")]), ("[b.c, a.c]", [e("b.c"), e("a.c")])):
                got = used(cmds)
                if got != want:
                    return {"expected": f"commands {label}: the union of the two commands analysed alone {sorted(want)}",
                            "observed": f"missing {sorted(want - got)}, extra {sorted(got - want)}", "klass": "isolation:shared-tree-mutated"}
        return None


TARGETS["codebasin.preprocessor:MacroFunction.replace"] = SharedTree()


# ---- recorded finding: the language a header OUTSIDE the code base is parsed in is that of its first includer ----------
def _x_first_includer_language():
    import os
    files = {"proj/main.c": "#ifdef CONFIG_SMP\nint smp;\n#else\nint up;\nint up2;\n#endif\n", "proj/boot.S": "nop\n",
             "generated/config.h": "#define CONFIG_SMP 1\n"}
    with _R.tree(files) as root:
        def e(f):
            return {"file": os.path.join(root, f), "defines": [], "include_paths": [os.path.join(root, "generated")], "include_files": ["config.h"]}
        cb = os.path.join(root, "proj")
        ab = _R.used_lines(root, [e("proj/boot.S"), e("proj/main.c")], codebase_dir=cb).get("proj/main.c")
        ba = _R.used_lines(root, [e("proj/main.c"), e("proj/boot.S")], codebase_dir=cb).get("proj/main.c")
    return None if ab == ba else (f"the same lines of main.c for both command orders ({ba}: gcc -E gives `int smp;`)", f"[boot.S, main.c]: {ab}")


TARGETS["codebasin.finder:ParserState.insert_file#recorded-findings"] = _R.Exhibits([
    ("isolation:language-of-a-header-outside-the-code-base-is-its-first-includer's",
     "generated/config.h forced into boot.S and main.c (gcc -I../generated -include config.h)", _x_first_includer_language)])
