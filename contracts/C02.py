"""
C02 -- #if expressions are evaluated with C integer-constant-expression semantics.

Proved here (exact, finite obligations over constants and statements read from
the real ast on every run):
  * the precedence / associativity table of ExpressionEvaluator induces, through
    the climbing rule as written in `expression`, exactly the grouping of the ISO C
    grammar for every ordered pair of binary operators; unary operators bind
    tighter than every binary one; ?: is lowest and right associative;
  * the shape of the climbing loop (>= min_precedence, prec + 1 for LEFT, prec for
    RIGHT) and of `evaluate` (truth value = value != 0);
  * an #elif/#else of a chain that already selected a branch is not evaluated
    (contract of the associator closure, shared with C01).
  * operator semantics (added later): `__wrap`, `__apply_unary_op` (4 operators) and
    `__apply_binary_op` (18 operators) are proved, for ALL operands of both types,
    to return the value and type ISO C defines for intmax_t / uintmax_t arithmetic
    (usual arithmetic conversions, 0/1 results, truncating / and %, shifts on the
    promoted left operand), whenever C defines the result.  The spec is stated over
    the integers (conversion = reduction modulo 2**64, 6.3.1.3); Python's & | ^ are
    related to abstract 64-bit operators by assumption A2b (their bit-level meaning is
    not part of the proof, the native check covers it).  A solver counterexample is
    decoded into operands and replayed on the real function.
Bounded (native/C02.py, labelled so): literals, character constants, defined,
identifiers, ?: and the parser's recursion against a C reference evaluator.
"""
import ast

import z3

import contracts.C01 as C01     # noqa: F401  (associator: #elif not evaluated after a taken branch)
from pyvc.contract import contract
from pyvc.values import BOOL, INT, VStr
from pyvc import pyint

LEVEL = "other"
UNITS = ["codebasin.finder:ParserState.associate.<locals>.associator"]

# ------------------------------------------------------------------------------------------
# Operator semantics: ISO C arithmetic on intmax_t / uintmax_t, stated over the integers.
# A run-time value is (unsigned?, mathematical value) with the value in the type's range.
# ------------------------------------------------------------------------------------------
EE = "codebasin.preprocessor:ExpressionEvaluator."
NP = pyint.NPINT
M64, IMIN, IMAX = 2 ** 64, -(2 ** 63), 2 ** 63 - 1


def _conv(x, U):
    """conversion to the common type (6.3.1.3): modulo 2**64 when the target is unsigned"""
    return z3.If(U, x % M64, x)


def _tdiv(a, b):
    """quotient with the fractional part discarded (6.5.5p6), from floor division of magnitudes"""
    return z3.If(a >= 0, z3.If(b > 0, a / b, -(a / (-b))), z3.If(b > 0, -((-a) / b), (-a) / (-b)))


def c_binary(op, lu, lv, ru, rv):
    """(defined in C, result unsigned?, constraint on the result value v)"""
    one = lambda c: z3.If(c, 1, 0)      # noqa: E731
    F = z3.BoolVal(False)
    if op == "||":
        return z3.BoolVal(True), F, lambda v: v == one(z3.Or(lv != 0, rv != 0))
    if op == "&&":
        return z3.BoolVal(True), F, lambda v: v == one(z3.And(lv != 0, rv != 0))
    if op in ("<<", ">>"):
        U = lu                              # the type of the promoted left operand (6.5.7p3)
        count_ok = z3.And(rv >= 0, rv < 64)
        p = pyint.pow2(rv)
        if op == "<<":
            return (z3.And(count_ok, z3.Or(U, z3.And(lv >= 0, lv * p <= IMAX))), U,
                    lambda v: v == z3.If(U, (lv * p) % M64, lv * p))
        return z3.And(count_ok, z3.Or(U, lv >= 0)), U, lambda v: v == lv / p
    U = z3.Or(lu, ru)                       # usual arithmetic conversions (6.3.1.8)
    a, b = _conv(lv, U), _conv(rv, U)
    rel = {"==": a == b, "!=": a != b, "<": a < b, "<=": a <= b, ">": a > b, ">=": a >= b}
    if op in rel:
        return z3.BoolVal(True), F, lambda v: v == one(rel[op])
    if op in ("+", "-", "*"):
        m = {"+": a + b, "-": a - b, "*": a * b}[op]
        return z3.Or(U, z3.And(m >= IMIN, m <= IMAX)), U, lambda v: v == z3.If(U, m % M64, m)
    if op in ("/", "%"):
        dfn = z3.And(b != 0, z3.Or(U, z3.Not(z3.And(a == IMIN, b == -1))))
        q = _tdiv(a, b)
        return dfn, U, (lambda v: v == q) if op == "/" else (lambda v: v == a - q * b)
    if op in ("&", "|", "^"):
        f = pyint.OP64[op]
        return z3.BoolVal(True), U, lambda v: v % M64 == f(a % M64, b % M64)    # with valid(v): determines v
    raise KeyError(op)


def c_unary(op, u, x):
    F = z3.BoolVal(False)
    if op == "+":
        return z3.BoolVal(True), u, lambda v: v == x
    if op == "-":
        return z3.Or(u, x != IMIN), u, lambda v: v == z3.If(u, (-x) % M64, -x)
    if op == "!":
        return z3.BoolVal(True), F, lambda v: v == z3.If(x == 0, 1, 0)
    if op == "~":                           # every bit of the 64-bit representation flipped: (2**64-1) - rep
        return z3.BoolVal(True), u, lambda v: v % M64 == (M64 - 1) - (x % M64)
    raise KeyError(op)


def _valid_u(U, v):
    return z3.If(U, z3.And(v >= 0, v < M64), z3.And(v >= IMIN, v <= IMAX))


w = contract(EE + "__wrap", props=["C02"])
w.param("value", INT).param("unsigned", BOOL).result(NP)


@w.ensures
def _(A, R):
    r = R.result
    return [("result-has-the-requested-type", pyint.unsigned(r) == A.unsigned.t),
            ("result-in-range-of-its-type", pyint.valid(r)),
            ("result-congruent-to-value-mod-2^64", pyint.val(r) % M64 == A.value.t % M64)]


BINARY_OPS = ["||", "&&", "|", "^", "&", "==", "!=", "<", "<=", ">", ">=", "<<", ">>", "+", "-", "*", "/", "%"]
UNARY_OPS = ["-", "+", "!", "~"]
_OPNAME = {"||": "lor", "&&": "land", "|": "or", "^": "xor", "&": "and", "==": "eq", "!=": "ne", "<": "lt", "<=": "le",
           ">": "gt", ">=": "ge", "<<": "shl", ">>": "shr", "+": "add", "-": "sub", "*": "mul", "/": "div", "%": "rem",
           "!": "not", "~": "compl"}


def _binary_contract(op):
    c = contract(EE + "__apply_binary_op#" + _OPNAME[op], props=["C02"])
    c.param("op", VStr(z3.StringVal(op))).param("lhs", NP).param("rhs", NP).result(NP)

    def parts(A):
        return c_binary(op, pyint.unsigned(A.lhs), pyint.val(A.lhs), pyint.unsigned(A.rhs), pyint.val(A.rhs))

    @c.requires
    def _(A):
        return [("lhs-in-range-of-its-type", pyint.valid(A.lhs)), ("rhs-in-range-of-its-type", pyint.valid(A.rhs)),
                ("defined-in-C", parts(A)[0])]

    @c.ensures
    def _(A, R):
        _, U, want = parts(A)
        r = R.result
        return [(f"type-of-result/{op}", pyint.unsigned(r) == U),
                (f"result-in-range-of-its-type/{op}", pyint.valid(r)),
                (f"value==C({op})", want(pyint.val(r)))]
    return c


def _unary_contract(op):
    c = contract(EE + "__apply_unary_op#" + _OPNAME.get(op, {"-": "neg", "+": "pos"}.get(op)), props=["C02"])
    c.param("op", VStr(z3.StringVal(op))).param("operand", NP).result(NP)

    def parts(A):
        return c_unary(op, pyint.unsigned(A.operand), pyint.val(A.operand))

    @c.requires
    def _(A):
        return [("operand-in-range-of-its-type", pyint.valid(A.operand)), ("defined-in-C", parts(A)[0])]

    @c.ensures
    def _(A, R):
        _, U, want = parts(A)
        r = R.result
        return [(f"type-of-result/unary{op}", pyint.unsigned(r) == U),
                (f"result-in-range-of-its-type/unary{op}", pyint.valid(r)),
                (f"value==C(unary{op})", want(pyint.val(r)))]
    return c


# ---- the conditional operator: one iteration of the climbing loop with operator '?' ------------------
from pyvc.contract import ObjSpec                    # noqa: E402
from pyvc.values import Abstract, STR, VAtom, VNone   # noqa: E402

from pyvc.state import HeapObj                        # noqa: E402


def _match_type(ex, st, env, node):
    # this unit: the operator token read is '?'
    return [(st, st.alloc(HeapObj("inst", cls="Operator", fields={"token": VStr(z3.StringVal("?"))})))]


def _match_value(ex, st, env, node):
    return [(st, VNone())]


def _sub_expression(ex, st, env, node):
    """recursion hypothesis: a nested expression yields some value of one of the two types"""
    r = NP.fresh(ex.ctx, "subexpr")
    st.assume(pyint.valid(r))
    st.ghost["subexprs"] = st.ghost.get("subexprs", ()) + (r,)
    return [(st, r)]


t_ = contract(EE + "expression@loop0#ternary", props=["C02"])
t_.param("self", ObjSpec("ExpressionEvaluator", {})).param("expr", NP)
t_.opaque = {"codebasin.preprocessor:Parser.match_type": _match_type,
             "codebasin.preprocessor:Parser.match_value": _match_value,
             EE + "expression": _sub_expression}
t_.may_raise = {"ParseError"}


@t_.requires
def _(A):
    return [("condition-in-range-of-its-type", pyint.valid(A.expr))]


@t_.ensures
def _(A, R):
    subs = R.st.ghost.get("subexprs", ())
    if len(subs) != 2:
        return [("exactly two sub-expressions are read: the two arms", z3.BoolVal(False))]
    a, b = subs                      # in source order: the arm after '?', then the arm after ':'
    U = z3.Or(pyint.unsigned(a), pyint.unsigned(b))
    chosen = z3.If(pyint.val(A.expr) != 0, pyint.val(a), pyint.val(b))
    r = R.new.expr
    return [("type-of-result/?:  (common type of the two arms)", pyint.unsigned(r) == U),
            ("result-in-range-of-its-type/?:", pyint.valid(r)),
            ("value==C(?:)  (the selected arm converted to the common type)", pyint.val(r) == _conv(chosen, U))]


_OPNAME_U = {"-": "neg", "+": "pos", "!": "not", "~": "compl"}
UNITS.append(t_.key)
UNITS.append(EE + "__wrap")
for _op in BINARY_OPS:
    UNITS.append(_binary_contract(_op).key)
for _op in UNARY_OPS:
    _OPNAME[_op] = _OPNAME_U[_op]
    UNITS.append(_unary_contract(_op).key)

# ISO C (6.5) binary operator precedence levels, higher binds tighter; all left associative
C_TABLE = {"*": 10, "/": 10, "%": 10, "+": 9, "-": 9, "<<": 8, ">>": 8, "<": 7, "<=": 7, ">": 7, ">=": 7,
           "==": 6, "!=": 6, "&": 5, "^": 4, "|": 3, "&&": 2, "||": 1}


def _table(index, name):
    ci = index.class_by_name["ExpressionEvaluator"]
    d = ci.class_assigns[name]
    out = {}
    for k, v in zip(d.keys, d.values):
        out[k.value] = (v.args[0].value, v.args[1].value)
    return out


def extra_obligations(index, tier):
    key = "codebasin.preprocessor:ExpressionEvaluator.expression"
    out = []
    try:
        B = _table(index, "BinaryOperators")
        U = _table(index, "UnaryOperators")
    except Exception as e:      # noqa: BLE001
        return [("operator tables readable", False, str(e), key)]
    out.append(("binary-operator-set==C's (plus ?)", set(B) == set(C_TABLE) | {"?"}, str(sorted(set(B) ^ (set(C_TABLE) | {'?'}))), key))
    for op1 in C_TABLE:
        for op2 in C_TABLE:
            if op1 in B and op2 in B:
                # a op1 b op2 c : CBI parses rhs of op1 with min precedence prec(op1)+1 (LEFT), so op2 is absorbed
                # into the right operand iff prec(op2) >= prec(op1)+1
                p1, a1 = B[op1]
                p2, _ = B[op2]
                absorbed = (p2 >= p1 + 1) if a1 == "LEFT" else (p2 >= p1)
                c_right = C_TABLE[op2] > C_TABLE[op1]
                out.append((f"grouping/a {op1} b {op2} c", absorbed == c_right, f"cbi groups right: {absorbed}, C: {c_right}", key))
    for op in C_TABLE:
        if op in B:
            out.append((f"ternary-binds-looser-than/{op}", B["?"][0] < B[op][0], "", key))
            out.append((f"unary-binds-tighter-than/{op}", all(U[u][0] > B[op][0] for u in U), "", key))
    out.append(("ternary-is-right-associative", B.get("?", (None, None))[1] == "RIGHT", "", key))
    out.append(("unary-operator-set", set(U) == {"-", "+", "!", "~"}, str(sorted(U)), key))
    src = "".join(ast.unparse(index.func(key).node).split())
    out.append(("climbing-guard: operator taken iff prec >= min_precedence", ".prec>=min_precedence" in src, "", key, "pattern"))
    out.append(("LEFT: rhs = expression(prec + 1)", "ifassoc=='LEFT':rhs=self.expression(prec+1)" in src, "", key, "pattern"))
    out.append(("RIGHT: rhs = expression(prec)", "elifassoc=='RIGHT':rhs=self.expression(prec)" in src, "", key, "pattern"))
    ev = ast.unparse(index.func("codebasin.preprocessor:ExpressionEvaluator.evaluate").node)
    out.append(("truth-value==(value != 0)", "return test_val != 0" in ev, "", "codebasin.preprocessor:ExpressionEvaluator.evaluate", "pattern"))
    prim = ast.unparse(index.func("codebasin.preprocessor:ExpressionEvaluator.primary").node)
    out.append(("unary operand parsed at the unary precedence", "expr = self.expression(prec)" in prim, "",
                "codebasin.preprocessor:ExpressionEvaluator.primary", "pattern"))
    return out


ASSUMPTIONS = ["A9 the ISO C precedence table and the reference evaluator of native/C02.py are trusted specs",
               "A3 numpy scalars only carry the operand type (int64/uint64); the arithmetic is done on Python integers",
               pyint.ASSUMED_NOTE,
               "operator proofs: expressions whose value C leaves undefined or implementation-defined (division by zero, INT64_MIN/-1, "
               "shift count outside [0,64), signed overflow, << of a negative or overflowing signed value, >> of a negative value) "
               "are excluded by the precondition, as the property's quantifier says"]
NOT_COVERED = ["literal conversion, character constants and the recursion of expression/primary/term are checked up to the stated bound only",
               "unsuffixed literals above INT64_MAX raise OverflowError (pinned by tests/failure): recorded finding",
               "macro expansion before evaluation (C03)"]
EXPLANATION = ("Table, grouping and #elif obligations are discharged exactly on the real ast; the 22 operators and the wrap helper are "
               "proved against the ISO C definitions for all operands (integers, z3); what composes them (literals, characters, ?:, the "
               "recursive parser) is checked against a C reference evaluator on every atom, every binary operator over boundary "
               "operands, every ordered operator pair, ternary nesting and seeded random expressions (bounded).")
