"""pyvc.ops -- Python operator semantics on symbolic values."""
import z3

from .values import *  # noqa
from .state import Unsupported, Exc
from . import bigop


def deref(st, v):
    """content of a container cell, or the value itself"""
    if isinstance(v, VObj):
        o = st.heap[v.oid]
        if o.k == "cell":
            return o.val
    return v


def is_cell(st, v):
    return isinstance(v, VObj) and st.heap[v.oid].k == "cell"


def truth(st, v):
    v = deref(st, v)
    if isinstance(v, VBool):
        return v.t
    if isinstance(v, VInt):
        return v.t != 0
    if isinstance(v, VNone):
        return z3.BoolVal(False)
    if isinstance(v, VOpt):
        return z3.And(z3.Not(v.is_none()), truth(st, v.get()))
    if isinstance(v, VSet):
        return z3.Not(v.is_empty())
    if isinstance(v, (VEmptySet, VEmptySeq, VEmptyMap)):
        return z3.BoolVal(False)
    if isinstance(v, VSeq):
        if v.items is not None:
            return z3.BoolVal(len(v.items) > 0)
        return v.n > 0
    if isinstance(v, VMap):
        return z3.Not(v.dom == z3.K(v.key.sort(), z3.BoolVal(False)))
    if isinstance(v, VStr):
        return z3.Length(v.t) > 0
    if isinstance(v, VFloat):
        return z3.Or(v.is_nan(), v.val() != 0)
    if isinstance(v, VTuple):
        return z3.BoolVal(len(v.items) > 0)
    if isinstance(v, (VObj, VFunc, VAtom)):
        return z3.BoolVal(True)
    raise Unsupported(f"truth value of {v!r}")


def materialize(st, comp, ctx):
    """a mapping list-comprehension over a list as a list value: a fresh list R with
    len(R) == len(base) and R[i] == elem(base[i]) (definition of the comprehension)"""
    if not (isinstance(comp, VComp) and comp.over[0] == "seq" and comp.elem is not None and hasattr(comp.elem, "t")):
        raise Unsupported("cannot materialise this comprehension")
    if getattr(comp, "extra_pc", None):
        raise Unsupported("comprehension element depends on a call contract")
    base, ivar = comp.over[1], comp.over[2]
    dom = z3.simplify(z3.substitute(comp.dom, (ivar, z3.IntVal(0))))
    el = comp.elem
    r = SeqOf(el.kind).fresh(ctx, "comp")
    # filters would need a compaction; only pure maps are supported
    i = z3.Int(ctx.fresh_name("mi"))
    full = z3.And(0 <= ivar, ivar < base.n)
    if not z3.simplify(comp.dom).eq(z3.simplify(full)) and not z3.simplify(comp.dom).eq(z3.simplify(z3.And(ivar >= 0, ivar < base.n))):
        raise Unsupported("filtered comprehension used as a value")
    st.assume(r.n == base.n)
    st.assume(z3.ForAll([i], z3.Implies(z3.And(0 <= i, i < base.n), r.arr[i] == z3.substitute(el.t, (ivar, i))),
                        patterns=[r.arr[i]]))
    return r


def coerce(st, v, kind, ctx=None):
    """adapt a value to a declared kind (polymorphic empties, None, int->float,
    cell -> content snapshot, list -> set of members)"""
    if kind is None:
        return v
    v = deref(st, v) if not isinstance(kind, type(None)) else v
    if isinstance(kind, Opt):
        if isinstance(v, VNone):
            return VOpt.none(kind)
        if isinstance(v, VOpt):
            return v
        return VOpt.some(kind, coerce(st, v, kind.inner))
    if isinstance(kind, SetOf):
        if isinstance(v, VEmptySet):
            return v.to(kind.elem)
        if isinstance(v, VEmptySeq):
            return VSet.empty(kind.elem)
        if isinstance(v, VSeq):
            return seq_to_set(v)
        if isinstance(v, VOpt):
            return coerce(st, v.get(), kind)
        return v
    if isinstance(kind, SeqOf):
        if isinstance(v, VComp) and ctx is not None:
            return materialize(st, v, ctx)
        if isinstance(v, VEmptySeq):
            return v.to(kind.elem)
        if isinstance(v, VTuple):
            return VSeq.of(kind.elem, [coerce(st, x, kind.elem) for x in v.items])
        return v
    if isinstance(kind, TotalMapOf):
        if isinstance(v, VEmptyDefault):
            if v.factory == "set" and isinstance(kind.val, SetOf):
                return VTotalMap(kind.key, kind.val, z3.K(kind.key.sort(), VSet.empty(kind.val.elem).t))
            if v.factory == "int" and kind.val == INT:
                return VTotalMap(kind.key, kind.val, z3.K(kind.key.sort(), z3.IntVal(0)))
            raise Unsupported(f"defaultdict({v.factory}) as {kind.name}")
        if isinstance(v, VMap) and v.default is not None:
            k = z3.Const("k!tm", kind.key.sort())
            return VTotalMap(kind.key, kind.val, z3.Lambda([k], z3.If(v.dom[k], v.valarr[k], v.default.t)))
        return v
    if isinstance(kind, MapOf):
        if isinstance(v, VEmptyMap):
            return v.to(kind.key, kind.val)
        if isinstance(v, VEmptyDefault):
            d = {"set": lambda: VSet.empty(kind.val.elem), "int": lambda: VInt(0)}[v.factory]()
            m = VEmptyMap().to(kind.key, kind.val)
            m.default = d
            return m
        return v
    if isinstance(v, VOpt) and not isinstance(kind, Opt) and v.kind.inner == kind:
        return v.get()          # callers guard None-ness on the path (contains/equal handle None themselves)
    if isinstance(kind, TupleKey) and isinstance(v, VTuple):
        return kind.pack([coerce(st, x, k) for x, (_, k) in zip(v.items, kind.fields)])
    if kind == FLOAT:
        if isinstance(v, VInt):
            return VFloat.fin(z3.ToReal(v.t))
        return v
    if kind == INT and isinstance(v, VBool):
        return VInt(z3.If(v.t, 1, 0))
    return v


def seq_to_set(v):
    if v.items is not None:
        s = VSet.empty(v.elem)
        for x in v.items:
            s = s.add(x)
        return s
    x = z3.Const("x!s2s", v.elem.sort())
    return VSet(v.elem, z3.Lambda([x], v.has(x)))


def unify_empty(st, a, b):
    a, b = deref(st, a), deref(st, b)
    if isinstance(a, VEmptySet) and isinstance(b, VSet):
        a = a.to(b.elem)
    if isinstance(b, VEmptySet) and isinstance(a, VSet):
        b = b.to(a.elem)
    if isinstance(a, VEmptySeq) and isinstance(b, VSeq):
        a = a.to(b.elem)
    if isinstance(b, VEmptySeq) and isinstance(a, VSeq):
        b = b.to(a.elem)
    if isinstance(a, VEmptyMap) and isinstance(b, VMap):
        a = a.to(b.key, b.val)
    if isinstance(b, VEmptyMap) and isinstance(a, VMap):
        b = b.to(a.key, a.val)
    return a, b


def equal(st, a, b):
    """Python == as a z3 Bool"""
    if isinstance(a, VObj) and isinstance(b, VObj) and not is_cell(st, a) and not is_cell(st, b):
        return z3.BoolVal(a.oid == b.oid)
    a, b = unify_empty(st, a, b)
    if isinstance(a, VNone) or isinstance(b, VNone):
        o = b if isinstance(a, VNone) else a
        if isinstance(o, VNone):
            return z3.BoolVal(True)
        if isinstance(o, VOpt):
            return o.is_none()
        return z3.BoolVal(False)
    if isinstance(a, VOpt) and not isinstance(b, VOpt):
        return z3.And(z3.Not(a.is_none()), equal(st, a.get(), b))
    if isinstance(b, VOpt) and not isinstance(a, VOpt):
        return equal(st, b, a)
    if isinstance(a, VEmptySet) and isinstance(b, VEmptySet):
        return z3.BoolVal(True)
    if isinstance(a, VEmptySeq) and isinstance(b, VEmptySeq):
        return z3.BoolVal(True)
    num = (VInt, VBool, VFloat)
    from . import pyint as _pi
    if _pi.is_npint(a) and isinstance(b, (VInt, VBool)):       # numpy scalar == Python int: by value
        return _pi.val(a) == to_int(b).t
    if _pi.is_npint(b) and isinstance(a, (VInt, VBool)):
        return _pi.val(b) == to_int(a).t
    if isinstance(a, num) and isinstance(b, num):
        if isinstance(a, VFloat) or isinstance(b, VFloat):
            fa, fb = to_float(a), to_float(b)
            return z3.And(z3.Not(fa.is_nan()), z3.Not(fb.is_nan()), fa.val() == fb.val())
        return to_int(a).t == to_int(b).t
    if isinstance(a, VMap) and isinstance(b, VMap):
        k = z3.Const("k!eq", a.key.sort())
        return z3.And(a.dom == b.dom,
                      z3.ForAll([k], z3.Implies(z3.Select(a.dom, k),
                                                z3.Select(a.valarr, k) == z3.Select(b.valarr, k))))
    if isinstance(a, VTuple) and isinstance(b, VTuple):
        if len(a.items) != len(b.items):
            return z3.BoolVal(False)
        return z3.And([equal(st, x, y) for x, y in zip(a.items, b.items)] or [z3.BoolVal(True)])
    if isinstance(a, VSeq) and isinstance(b, VSeq) and a.items is not None and b.items is not None:
        if len(a.items) != len(b.items):
            return z3.BoolVal(False)
        return z3.And([equal(st, x, y) for x, y in zip(a.items, b.items)] or [z3.BoolVal(True)])
    if isinstance(a, VSeq) and isinstance(b, VSeq):
        return a.eq(b)
    if type(a) is type(b) and hasattr(a, "t"):
        if a.t.sort() == b.t.sort():
            return a.t == b.t
        return z3.BoolVal(False)
    if isinstance(a, VFunc) or isinstance(b, VFunc):
        raise Unsupported("equality on callables")
    return z3.BoolVal(False)


def to_int(v):
    if isinstance(v, VInt):
        return v
    if isinstance(v, VBool):
        return VInt(z3.If(v.t, 1, 0))
    raise Unsupported(f"int of {v!r}")


def to_float(v):
    if isinstance(v, VFloat):
        return v
    return VFloat.fin(z3.ToReal(to_int(v).t))


def _float_bin(op, a, b):
    a, b = to_float(a), to_float(b)
    nan = z3.Or(a.is_nan(), b.is_nan())
    x, y = a.val(), b.val()
    r = {"+": x + y, "-": x - y, "*": x * y, "/": x / y}[op]
    fs = FLOAT.sort()
    return VFloat(z3.If(nan, fs.NaN, fs.Fin(r)))


def binop(st, op, a, b, line=None):
    """returns list of (condition, value|Exc): guarded alternatives"""
    a, b = deref(st, a), deref(st, b)
    a, b = unify_empty(st, a, b)
    num = (VInt, VBool, VFloat)
    if isinstance(a, num) and isinstance(b, num):
        isf = isinstance(a, VFloat) or isinstance(b, VFloat)
        if op in ("+", "-", "*"):
            if isf:
                return [(None, _float_bin(op, a, b))]
            x, y = to_int(a).t, to_int(b).t
            return [(None, VInt({"+": x + y, "-": x - y, "*": x * y}[op]))]
        if op == "/":
            fb = to_float(b)
            zero = z3.And(z3.Not(fb.is_nan()), fb.val() == 0)
            return [(zero, Exc("ZeroDivisionError", line)),
                    (z3.Not(zero), _float_bin("/", a, b))]
        if op in ("//", "%") and not isf:
            x, y = to_int(a).t, to_int(b).t
            # Python floor semantics: z3 div/mod are Euclidean-like (mod >= 0);
            # floor division: q = floor(x/y)
            # z3 integer '/' is floor for a positive divisor (0 <= mod < y);
            # floor(x/y) for y < 0 is floor((-x)/(-y)).
            q = z3.If(y > 0, x / y, (-x) / (-y))
            r = x - q * y
            val = VInt(q) if op == "//" else VInt(r)
            return [(y == 0, Exc("ZeroDivisionError", line)), (y != 0, val)]
        if op in ("&", "|", "^") and isinstance(a, VBool) and isinstance(b, VBool):
            return [(None, VBool({"&": z3.And(a.t, b.t), "|": z3.Or(a.t, b.t),
                                  "^": z3.Xor(a.t, b.t)}[op]))]
        if op in ("<<", ">>", "&", "|", "^") and not isf:
            from . import pyint
            return pyint.binop(st, op, to_int(a).t, to_int(b).t, line)
        if op == "**" and not isf:
            cb = concrete_int(to_int(b).t)
            if cb is not None and cb >= 0:
                r = z3.IntVal(1)
                for _ in range(cb):
                    r = r * to_int(a).t
                return [(None, VInt(r))]
    if isinstance(a, VSet) and isinstance(b, VSet):
        x = z3.Const("x!sb", a.elem.sort())
        if op == "|":
            return [(None, VSet(a.elem, z3.Lambda([x], z3.Or(a.t[x], b.t[x]))))]
        if op == "&":
            return [(None, VSet(a.elem, z3.Lambda([x], z3.And(a.t[x], b.t[x]))))]
        if op == "-":
            return [(None, VSet(a.elem, z3.Lambda([x], z3.And(a.t[x], z3.Not(b.t[x])))))]
    if isinstance(a, VSeq) and isinstance(b, VSeq) and op == "+":
        return [(None, a.concat(b))]
    if isinstance(a, VEmptySeq) and isinstance(b, VEmptySeq) and op == "+":
        return [(None, a)]
    if isinstance(a, VStr) and isinstance(b, VStr) and op == "+":
        return [(None, VStr(z3.Concat(a.t, b.t)))]
    if isinstance(a, VStr) and isinstance(b, VInt) and op == "*":
        ca, cb = concrete_str(a.t), concrete_int(b.t)
        if ca is not None and cb is not None:
            return [(None, VStr(ca * cb))]
    raise Unsupported(f"binary {op} on {a!r}, {b!r}")


def compare(st, op, a, b):
    a, b = deref(st, a), deref(st, b)
    if op == "==":
        return equal(st, a, b)
    if op == "!=":
        return z3.Not(equal(st, a, b))
    if op in ("is", "is not"):
        if isinstance(a, VNone) or isinstance(b, VNone):
            r = equal(st, a, b)
        elif isinstance(a, VObj) and isinstance(b, VObj):
            r = z3.BoolVal(a.oid == b.oid)
        elif isinstance(a, VBool) and isinstance(b, VBool):
            r = a.t == b.t
        else:
            raise Unsupported(f"identity on {a!r},{b!r}")
        return r if op == "is" else z3.Not(r)
    if op in ("in", "not in"):
        r = contains(st, b, a)
        return r if op == "in" else z3.Not(r)
    num = (VInt, VBool, VFloat)
    if isinstance(a, num) and isinstance(b, num):
        if isinstance(a, VFloat) or isinstance(b, VFloat):
            fa, fb = to_float(a), to_float(b)
            x, y = fa.val(), fb.val()
            r = {"<": x < y, "<=": x <= y, ">": x > y, ">=": x >= y}[op]
            return z3.And(z3.Not(fa.is_nan()), z3.Not(fb.is_nan()), r)
        x, y = to_int(a).t, to_int(b).t
        return {"<": x < y, "<=": x <= y, ">": x > y, ">=": x >= y}[op]
    raise Unsupported(f"compare {op} on {a!r},{b!r}")


def contains(st, container, x):
    c = deref(st, container)
    x = deref(st, x)
    if isinstance(c, VOpt):
        c = c.get()
    if isinstance(x, VOpt):
        ek = getattr(c, "elem", None) or getattr(c, "key", None)
        if ek is not None and not isinstance(ek, Opt):
            return z3.And(z3.Not(x.is_none()), contains(st, c, x.get()))
    if isinstance(c, (VEmptySet, VEmptySeq, VEmptyMap)):
        return z3.BoolVal(False)
    if isinstance(c, VAtom) and isinstance(c.kind, Abstract) and "__contains__" in c.kind.attrs:
        ek = c.kind.attrs["__contains__"]
        f = z3.Function(f"{c.kind.name}.__contains__", c.kind.sort(), ek.sort(), z3.BoolSort())
        return f(c.t, coerce(st, x, ek).t)
    if isinstance(c, VSet):
        return c.contains(coerce(st, x, c.elem))
    if isinstance(c, VMap):
        return c.has(coerce(st, x, c.key))
    if isinstance(c, VSeq):
        if c.items is not None:
            return z3.Or([equal(st, i, x) for i in c.items] or [z3.BoolVal(False)])
        return c.has(coerce(st, x, c.elem).t)
    if isinstance(c, VTuple):
        return z3.Or([equal(st, i, x) for i in c.items] or [z3.BoolVal(False)])
    if isinstance(c, VStr) and isinstance(x, VStr):
        return z3.Contains(c.t, x.t)
    raise Unsupported(f"`in` on {c!r}")


def length(st, v):
    v = deref(st, v)
    if isinstance(v, VOpt):
        v = v.get()
    if isinstance(v, (VEmptySet, VEmptySeq, VEmptyMap)):
        return z3.IntVal(0), []
    if isinstance(v, VSeq):
        return v.length(), []
    if isinstance(v, VTuple):
        return z3.IntVal(len(v.items)), []
    if isinstance(v, VStr):
        return z3.Length(v.t), []
    if isinstance(v, VSet):
        return bigop.card(v.t), bigop.card_facts(v.t)
    if isinstance(v, VMap):
        return bigop.card(v.dom), bigop.card_facts(v.dom)
    raise Unsupported(f"len of {v!r}")
