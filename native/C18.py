"""Native bounded stand-in for C18: model code bases with missing includes (quote and
angle, in reached and unreached branches, in headers included several times, by
several TUs/platforms) and unknown directives; the multiset of warnings the real
analysis issues, and the totals its aggregator prints, are compared with the
events of the reference preprocessor."""
import collections
import logging
import os
import re

from codebasin._detail.logging import WarningAggregator
from native import gen, refpp, sysrun
from native.systarget import SysTarget


class _Capture(logging.Handler):
    def __init__(self, agg):
        super().__init__(level=logging.DEBUG)
        self.records = []
        self.addFilter(agg)

    def emit(self, record):
        self.records.append(record)


class Events(SysTarget):
    def check(self, inp):
        self._last_valid = False
        case = self.case(inp)
        sb = self.sandbox()
        sb.write(case["files"], case["links"])
        cfg = gen.configuration(sb, case)
        exp = self.expected(sb, case, cfg)
        if exp is None:
            return None
        self._last_valid = True
        agg = WarningAggregator()
        cap = _Capture(agg)
        lg = logging.getLogger("codebasin")
        old_level, old_disable = lg.level, logging.root.manager.disable
        logging.disable(logging.NOTSET)
        lg.setLevel(logging.DEBUG)
        lg.addHandler(cap)
        try:
            try:
                _, state = sysrun.real_find(sb.root, cfg, [sb.abs(case["codebase"])], case["excludes"])
            except Exception as e:      # noqa: BLE001
                return {"expected": "analysis succeeds (missing headers are reported, not fatal)",
                        "observed": f"raised {type(e).__name__}: {e}", "klass": "events:analysis-fails"}
            issued = [r for r in cap.records if r.levelno == logging.WARNING]
            n_before = len(issued)
            agg.warn(lg)
            summary = [r.getMessage() for r in cap.records[len(cap.records) - 0:]] if False else \
                [r.getMessage() for r in cap.records if r.levelno == logging.WARNING][n_before:]
        finally:
            lg.removeHandler(cap)
            lg.setLevel(old_level)
            logging.disable(old_disable)
        # ---- expected multiset
        want = collections.Counter()
        for p in cfg:
            for ev in exp[p][1]:
                if ev[0] == "missing-include":
                    _, f, ln, name, angle = ev
                    want[("include", os.path.realpath(f), ln, name, "system" if angle else "user")] += 1
                elif ev[0] == "missing-forced":
                    want[("forced", os.path.realpath(ev[1]), ev[2])] += 1
        # unknown directives are reported when a file is parsed: once per parsed file that contains one
        parsed = set(state.trees.keys())
        for rel, lines in case["files"].items():
            f = os.path.realpath(sb.abs(rel))
            if f not in parsed:
                continue
            for no, line in enumerate(lines, start=1):
                if line["kind"] == "unknown":
                    word = line["text"][1:].split()[0]
                    if word not in ("line", "warning", "error"):
                        want[("directive", f, no, line["text"])] += 1
        got = collections.Counter()
        other = []
        for r in issued:
            m = r.getMessage()
            mi = re.match(r"(?s)(.*?):(\d+): (user|system) include '(.*?)' not found", m)
            md = re.match(r"(.*?):(\d+):(\d+): unrecognized directive '(.*)'", m)
            mf = re.match(r"(?s)(.*?): user include '(.*?)' not found \(-include\)", m)
            if mi:
                got[("include", mi.group(1), int(mi.group(2)), mi.group(4), mi.group(3))] += 1
            elif mf:
                got[("forced", os.path.realpath(mf.group(1)), mf.group(2))] += 1
            elif md:
                sp = md.group(4)
                if sp.startswith("["):          # the spelling is printed as the repr of a one-element list
                    import ast
                    try:
                        sp = ast.literal_eval(sp)[0]
                    except Exception:           # noqa: BLE001
                        pass
                got[("directive", md.group(1), int(md.group(2)), sp)] += 1
            else:
                other.append(m)
        if got != want:
            def fmt(c):
                return sorted((k[0], os.path.relpath(k[1], sb.root)) + tuple(k[2:]) + (n,) for k, n in c.items())[:8]
            return {"expected": f"warnings missing {fmt(want - got)}", "observed": f"unexpected warnings {fmt(got - want)}",
                    "klass": "events:wrong-multiset"}
        if other:
            return {"expected": "no other warning for fully honoured input", "observed": other[:3], "klass": "events:spurious-warning"}
        # ---- printed totals == numbers issued per category
        n_user = sum(n for k, n in got.items() if (k[0] == "include" and k[4] == "user") or k[0] == "forced")
        n_sys = sum(n for k, n in got.items() if k[0] == "include" and k[4] == "system")
        totals = {"all": None, "user": None, "system": None}
        for m in summary:
            t = re.match(r"(\d+) warnings generated", m)
            u = re.match(r"(\d+) user include files", m)
            s = re.match(r"(\d+) system include files", m)
            if t:
                totals["all"] = int(t.group(1))
            if u:
                totals["user"] = int(u.group(1))
            if s:
                totals["system"] = int(s.group(1))
        exp_tot = {"all": len(issued) or None, "user": n_user or None, "system": n_sys or None}
        if totals != exp_tot:
            return {"expected": exp_tot, "observed": totals, "klass": "events:printed-totals"}
        return None


import native.C13 as _C13      # noqa: E402

TARGETS = {"codebasin.config:load_database#sequences": _C13.Sequences(),       # one warning per occurrence (unknown compiler per entry)
           "codebasin.preprocessor:IncludeNode.evaluate_for_platform":
           Events("events", ("missing", "unknown", "multi", "forced"), quick_n=250, thorough_n=4000)}
