"""pyvc.engine -- unit verification: contracts -> obligations -> solvers."""
import concurrent.futures as cf
import os
import shutil
import subprocess
import tempfile
import time
import z3

from .values import *  # noqa
from .state import *   # noqa
from . import ops, bigop
from .symex import Executor as _Base, View
from .exprs import ExprMixin
from .calls import CallMixin
from .loops import LoopMixin, same_value
from .stubs import STUBS, ASSUMED
from . import fsmodel  # noqa: F401  (registers the os.path/pathlib/hashlib stubs)
from .contract import CellOf, ObjSpec


class Executor(LoopMixin, CallMixin, ExprMixin, _Base):
    pass


try:
    from .heapmodel import HeapMixin

    class Executor(HeapMixin, Executor):      # noqa: F811
        pass
except ImportError:
    pass


def _is_container(kind):
    return isinstance(kind, (SetOf, MapOf, SeqOf))


def make_param(ctx, st, name, kind):
    if isinstance(kind, CellOf):
        kind = kind.kind
        v = kind.fresh(ctx, name)
        for f in kind.wf(v):
            st.assume(f)
        return st.alloc(HeapObj("cell", val=v))
    if isinstance(kind, ObjSpec):
        fields = {}
        for fname, fk in kind.fields.items():
            fields[fname] = make_param(ctx, st, f"{name}.{fname}", fk)
        return st.alloc(HeapObj("inst", cls=kind.cls, fields=fields))
    if isinstance(kind, V):
        return kind                     # a fixed value (e.g. VFunc)
    if callable(kind) and not isinstance(kind, Kind):
        return kind(ctx, st)            # built by the contract (e.g. a concrete list in a cell)
    v = kind.fresh(ctx, name)
    for f in kind.wf(v):
        st.assume(f)
    if _is_container(kind):
        return st.alloc(HeapObj("cell", val=v))
    return v


class UnitResult:
    def __init__(self, key):
        self.key = key
        self.obligations = []
        self.covers = []            # (name, hyps) that must be satisfiable
        self.error = None           # Unsupported message -> undecided
        self.paths = 0
        self.inlined = set()
        self.stubs = set()
        self.contracts_used = set()
        self.ast_hash = None
        self.log_sites = []


def verify_function(index, contracts, c, props_filter=None):
    """symbolically execute the real body of c.key against contract c"""
    ctx = Ctx(index)
    ctx.unit = c.key.split(":")[1]
    res = UnitResult(c.key)
    base_key, _, variant = c.key.partition("#")        # "mod:func#case": several contracts on one function
    base_key, _, block = base_key.partition("@loop")     # "mod:func@loop4": the body of loop 4 as a unit
    try:
        fi = index.func(base_key)
    except KeyError as e:
        res.error = str(e)
        return res
    res.ast_hash = fi.ast_hash()
    if fi.foreign_decorators():
        res.error = f"unsupported: {fi.key} is decorated with {fi.foreign_decorators()} (the body is not the behaviour)"
        return res
    ex = Executor(ctx, contracts, STUBS)
    st = State()
    try:
        declared = [n for n, _ in c.params]
        sig = [a.arg for a in fi.node.args.posonlyargs + fi.node.args.args + fi.node.args.kwonlyargs]
        if fi.node.args.kwarg is not None:
            sig.append(fi.node.args.kwarg.arg)
        body = fi.node.body
        if block:
            from .loops import loop_nodes
            loops = loop_nodes(fi.node)
            if int(block) >= len(loops):
                raise Unsupported(f"{base_key} has no loop #{block} any more")
            body = loops[int(block)].body
            sig = declared                    # a block's "parameters" are the variables live at its entry
        for n in declared:
            if n not in sig:
                raise Unsupported(f"contract parameter '{n}' is not a parameter of {c.key} (signature {sig})")
        for n in sig:
            if n not in declared:
                raise Unsupported(f"parameter '{n}' of {c.key} has no kind in the contract")
        for name, kind in c.params:
            st.env[name] = make_param(ctx, st, name, kind)
        if c.free:
            st.env["$closure"] = {n: make_param(ctx, st, n, k) for n, k in c.free}
        from .stubs import log_cell
        log_cell(st)                      # the ghost log exists from the start so that loops constrain it
        if getattr(c, "setup", None):
            c.setup(ctx, st)
        if c.globals:
            st.ghost["globals"] = {(fi.module, n): make_param(ctx, st, "g_" + n, k) for n, k in c.globals}
        entry = st.fork()
        venv = dict(entry.env)
        venv.update(entry.env.get("$closure", {}))
        venv.update({n: v for (m_, n), v in entry.ghost.get("globals", {}).items()})
        A = View(entry, venv)
        for fn in c._requires:
            for label, f in fn(A):
                st.assume(f)
        if c.hints:
            for f in c.hints(A):
                st.assume(f)
        res.covers.append((f"{ctx.unit}/requires-satisfiable", list(st.pc)))
        ex.fn_stack.append(fi)
        ex.contract_stack.append(c)
        ex.loop_counters.append([0, 0])
        ex.entry_views.append(A)
        results = ex.exec_block(st, body)
        if block:
            from .state import Continue as _Cont, Break as _Brk
            fixed = []
            for s_, o_ in results:
                if isinstance(o_, _Brk):
                    s_.ghost["broke"] = True            # the block leaves its loop
                    o_ = NORMAL
                elif isinstance(o_, _Cont):
                    o_ = NORMAL
                fixed.append((s_, o_))
            results = fixed
        res.paths = len(results)
        n_ret = 0
        for s2, oc in results:
            if isinstance(oc, (Return, Normal)):
                s2.ghost["returned"] = isinstance(oc, Return)       # a block unit may leave its function
                rv = oc.value if isinstance(oc, Return) else VNone()
                if c.result_kind is not None:
                    rv = ops.coerce(s2, rv, c.result_kind)
                n_ret += 1
                nenv = dict(s2.env)
                nenv.update(s2.env.get("$closure", {}))
                nenv.update({n: v for (m_, n), v in s2.ghost.get("globals", {}).items()})
                N = View(s2, nenv)
                for fn, props in c._ensures:
                    if props_filter and props and not (set(props) & set(props_filter)):
                        continue
                    for label, f in fn(A, _ResultView(s2, rv, N)):
                        ctx.oblige(f"{ctx.unit}/ensures:{label}", s2, f, "ensures", None, props)
                # a declared exception must be raised when its condition holds
                for exc, when in c._raises.items():
                    ctx.oblige(f"{ctx.unit}/must-raise:{exc}", s2, z3.Not(when(A)), "raises", None)
                # frame: parameter containers unchanged unless declared
                for name, kind in list(c.params) + list(c.free) + list(c.globals):
                    if c.modifies and name in c.modifies:
                        continue
                    v0 = venv[name]
                    if isinstance(v0, VObj):
                        _frame_obligations(ctx, entry, s2, v0, name, c)
                res.covers.append((f"{ctx.unit}/return-path{n_ret}-reachable", list(s2.pc)))
            elif isinstance(oc, Raise):
                e = oc.exc
                if e.name in getattr(c, "may_raise", ()):
                    continue                      # a permitted (nondeterministic) exceptional exit
                if e.name in c._raises:
                    ctx.oblige(f"{ctx.unit}/raises:{e.name}-only-when/L{e.line}", s2,
                               c._raises[e.name](A), "raises", e.line)
                else:
                    ctx.oblige(f"{ctx.unit}/no-{e.name}/L{e.line}", s2, z3.BoolVal(False),
                               "no-raise", e.line)
            else:
                raise Unsupported("break/continue at function level")
    except Unsupported as e:
        if os.environ.get("PYVC_DEBUG"):
            raise
        res.error = f"unsupported: {e}"
    except AttributeError as e:
        if os.environ.get("PYVC_DEBUG"):
            raise
        res.error = f"contract refers to a vanished name: {e}"
    except z3.Z3Exception as e:
        if os.environ.get("PYVC_DEBUG"):
            raise
        res.error = f"unsupported: the code does not have the shape the contract types it with ({e})"
    res.obligations = ctx.obligations
    res.inlined = ctx.inlined
    res.stubs = ctx.stub_uses
    res.contracts_used = ctx.contract_uses
    return res


class _ResultView:
    """what `ensures` sees: R.result, R.new.<local/param>, R.log"""

    def __init__(self, st, result, new):
        self.st = st
        self.result = ops.deref(st, result) if isinstance(result, VObj) and ops.is_cell(st, result) else result
        self.raw_result = result
        self.new = new
        self.log = st.ghost.get("log", ())
        self.trace = st.heap[st.ghost["trace_cell"].oid].val if "trace_cell" in st.ghost else None
        self.logseq = st.heap[st.ghost["log_cell"].oid].val if "log_cell" in st.ghost else None
        self.yielded = st.heap[st.ghost["yield_cell"].oid].val if "yield_cell" in st.ghost else None


def _frame_obligations(ctx, entry, final, ref, name, c):
    o0 = entry.heap[ref.oid]
    o1 = final.heap.get(ref.oid)
    if o1 is None:
        return
    if o0.k == "cell":
        if not same_value(o0.val, o1.val):
            ctx.oblige(f"{ctx.unit}/frame:{name}-unchanged", final,
                       ops.equal(final, o0.val, o1.val), "frame")
    else:
        for f, v0 in o0.fields.items():
            if c.modifies and f"{name}.{f}" in c.modifies:
                continue
            v1 = o1.fields.get(f)
            if isinstance(v0, VObj) and isinstance(v1, VObj) and v0.oid == v1.oid:
                _frame_obligations(ctx, entry, final, v0, f"{name}.{f}", c)
            elif v1 is None or not same_value(v0, v1):
                if v1 is None or isinstance(v0, VObj) or isinstance(v1, VObj):
                    ctx.oblige(f"{ctx.unit}/frame:{name}.{f}-unchanged", final, z3.BoolVal(False), "frame")
                else:
                    ctx.oblige(f"{ctx.unit}/frame:{name}.{f}-unchanged", final,
                               ops.equal(final, v0, v1), "frame")


# ---------------------------------------------------------------------------
# discharge

Z3_NEW = shutil.which("z3-new") or "z3-new"
Z3_OLD = "/usr/bin/z3"
CVC5 = "/usr/bin/cvc5"


def to_smt2(hyps, goal, expect_unsat=True):
    s = z3.Solver()
    fs = list(hyps) + ([z3.Not(goal)] if goal is not None else [])
    for owner, ax, why in bigop.relevant_axioms(fs):
        s.add(ax)
    for f in fs:
        s.add(f)
    return _fix_decl_order(s.to_smt2())


def _fix_decl_order(text):
    """z3's printer may emit a datatype before an uninterpreted sort it mentions:
    move every `(declare-sort ...)` line to the top."""
    lines = text.split("\n")
    sorts = [l for l in lines if l.startswith("(declare-sort ")]
    rest = [l for l in lines if not l.startswith("(declare-sort ")]
    return "\n".join(sorts + rest)


def _run(cmd, timeout):
    t0 = time.time()
    try:
        p = subprocess.run(cmd, capture_output=True, text=True, timeout=timeout + 5)
        out = (p.stdout or "").strip().splitlines()
        ans = out[0].strip() if out else "unknown"
        if ans not in ("sat", "unsat", "unknown"):
            ans = "unknown:" + (p.stdout + p.stderr)[:200].replace("\n", " ")
    except subprocess.TimeoutExpired:
        ans = "unknown:timeout"
    return ans, time.time() - t0


def _solve_inproc(text, timeout):
    import z3 as _z
    t0 = time.time()
    try:
        ctx = _z.Context()
        s = _z.Solver(ctx=ctx)
        s.set("timeout", int(timeout * 1000))
        s.from_string(text)
        r = s.check()
        ans = str(r)
        if ans == "sat":
            _LAST_MODEL.clear()
            try:
                m = s.model()
                for d in m.decls():
                    if d.arity() == 0 and len(_LAST_MODEL) < 400:
                        v = m[d]
                        if v is not None and not _z.is_array(v) and not _z.is_quantifier(v):
                            _LAST_MODEL[d.name()] = v.sexpr()[:300]
            except Exception:        # noqa: BLE001  (a model is a convenience, never a verdict)
                pass
    except Exception as e:           # parse errors etc. -> undecided, never a verdict
        ans = "unknown:" + str(e)[:200]
    return ans, time.time() - t0


_LAST_MODEL = {}


def solve_text(args):
    """-> (answer, solver, seconds, per-solver log); runs inside a worker process"""
    text, timeout, use_fallback = args
    log = []
    ans, dt = _solve_inproc(text, timeout)
    log.append(("z3-5.1", ans, round(dt, 3)))
    total = dt
    if ans == "sat" and _LAST_MODEL:
        log.append(("model", dict(_LAST_MODEL), 0))
    if ans in ("sat", "unsat"):
        return ans, "z3-5.1", total, log
    if use_fallback:
        fd, path = tempfile.mkstemp(suffix=".smt2", prefix="pyvc_")
        try:
            with os.fdopen(fd, "w") as fh:
                fh.write(text)
            if os.path.exists(CVC5):
                a2, dt2 = _run([CVC5, "--lang=smt2", f"--tlimit={int(timeout * 1000)}", "--strings-exp",
                                "--arrays-exp", path], timeout)
                log.append(("cvc5-1.0.3", a2, round(dt2, 3)))
                total += dt2
                if a2 in ("sat", "unsat"):
                    return a2, "cvc5-1.0.3", total, log
            if os.path.exists(Z3_OLD):
                a3, dt3 = _run([Z3_OLD, "-smt2", f"-T:{int(timeout)}", path], timeout)
                log.append(("z3-4.8.12", a3, round(dt3, 3)))
                total += dt3
                if a3 in ("sat", "unsat"):
                    return a3, "z3-4.8.12", total, log
        finally:
            os.unlink(path)
    return "unknown", None, total, log


def crosscheck_text(args):
    text, timeout = args
    fd, path = tempfile.mkstemp(suffix=".smt2", prefix="pyvc_")
    try:
        with os.fdopen(fd, "w") as fh:
            fh.write(text)
        a2, d2 = _run([CVC5, "--lang=smt2", f"--tlimit={int(timeout * 1000)}", "--strings-exp",
                       "--arrays-exp", path], timeout)
        return ("cvc5-1.0.3", a2, round(d2, 3))
    finally:
        os.unlink(path)


_POOL = None


def pool(jobs=None):
    global _POOL
    if _POOL is None:
        import multiprocessing as mp
        jobs = jobs or min(16, os.cpu_count() or 4)
        _POOL = mp.get_context("forkserver").Pool(jobs)
    return _POOL


def close_pool():
    global _POOL
    if _POOL is not None:
        _POOL.terminate()
        _POOL = None


def discharge(obligations, covers, timeout=10, jobs=None, crosscheck=False):
    """every obligation must be unsat; every cover query (a planted `assert
    False`) must NOT be unsat."""
    pl = pool(jobs)
    texts = [to_smt2(ob.hyps, ob.goal) for ob in obligations]
    for ob, t in zip(obligations, texts):
        ob.smt_size = len(t)
    ctexts = [to_smt2(hyps, None) for _, hyps in covers]
    res = pl.map(solve_text, [(t, timeout, True) for t in texts], chunksize=1)
    cres = pl.map(solve_text, [(t, min(timeout, 3), False) for t in ctexts], chunksize=1)
    for ob, t, (ans, solver, dt, log) in zip(obligations, texts, res):
        ob.model = next((l[1] for l in log if l[0] == "model"), None)
        log = [l for l in log if l[0] != "model"]
        ob.status, ob.solver, ob.time, ob.detail = ans, solver, dt, log
        if ans != "unsat":
            ob.smt2 = t
    if crosscheck:
        idx = [i for i, ob in enumerate(obligations) if ob.status == "unsat" and ob.solver.startswith("z3")]
        cr = pl.map(crosscheck_text, [(texts[i], timeout) for i in idx], chunksize=1)
        for i, c in zip(idx, cr):
            obligations[i].cross = c
    return [(name, ans, solver, dt) for (name, _), (ans, solver, dt, log) in zip(covers, cres)]
