"""
Native bounded stand-in for C05: which physical lines are counted (C/C++).

Reference (trusted spec A9, written from ISO C translation phases 2-3): delete each
backslash-newline, replace every comment by one space, and a physical line is
counted iff at least one non-white-space character that survives stands on it;
a logical line whose first surviving non-blank character is # is a directive.
Quote characters inside comments and comment markers inside literals are inert.
Only well-formed texts are in the quantifier (no unterminated literal or comment,
no backslash at end of file, character constants of one character or one escape).
"""
import io
import itertools
import random

from codebasin import file_source

ALPHA = "a \n/*\"'\\#"


def reference(text):
    """-> (counted physical lines, [(first line, last line, is_directive, counted lines)] per logical line) or None if ill-formed"""
    if text.endswith("\\") or text.endswith("\\\n"):
        return None                          # backslash(-newline) at end of file: diagnosed by gcc
    # phase 2: splice, remembering the physical line of every remaining character
    chars = []
    line = 1
    i = 0
    n = len(text)
    while i < n:
        c = text[i]
        if c == "\\" and i + 1 < n and text[i + 1] == "\n":
            i += 2
            line += 1
            continue
        if c == "\\" and i + 1 == n:
            return None                      # backslash at end of file
        chars.append((c, line))
        if c == "\n":
            line += 1
        i += 1
    total_lines = line if (text and not text.endswith("\n")) else line - 1
    # phase 3: comments and literals
    counted = set()
    logical = []          # per logical line: [start phys, end phys, directive?, first-nonblank-seen?, lines]
    cur = None
    mode = "N"
    k = 0
    m = len(chars)

    def start(ln):
        return {"start": ln, "end": ln, "directive": False, "seen": False, "lines": set()}

    def emit(c, ln):
        nonlocal cur
        if cur is None:
            cur = start(ln)
        cur["end"] = max(cur["end"], ln)
        if not c.isspace():
            counted.add(ln)
            cur["lines"].add(ln)
            if not cur["seen"]:
                cur["seen"] = True
                cur["directive"] = (c == "#")
    while k < m:
        c, ln = chars[k]
        if cur is None and mode in ("N",):
            cur = start(ln)
        if mode == "N":
            if c == "\n":
                if cur is not None:
                    cur["end"] = max(cur["end"], ln)
                    logical.append(cur)
                cur = None
            elif c == "/" and k + 1 < m and chars[k + 1][0] == "/":
                mode = "LINE"
                k += 1
            elif c == "/" and k + 1 < m and chars[k + 1][0] == "*":
                mode = "BLOCK"
                k += 1
                if cur is None:
                    cur = start(ln)
            elif c == "\\":
                return None                  # stray backslash outside a literal
            elif c == '"':
                emit(c, ln)
                mode = "DQ"
            elif c == "'":
                emit(c, ln)
                mode = "SQ"
                sq_len = 0
            else:
                emit(c, ln)
        elif mode == "LINE":
            if c == "\n":
                mode = "N"
                if cur is not None:
                    cur["end"] = max(cur["end"], ln)
                    logical.append(cur)
                cur = None
        elif mode == "BLOCK":
            if cur is not None:
                cur["end"] = max(cur["end"], ln)
            if c == "*" and k + 1 < m and chars[k + 1][0] == "/":
                mode = "N"
                k += 1
                if cur is not None:
                    cur["end"] = max(cur["end"], chars[k][1])
        elif mode in ("DQ", "SQ"):
            q = '"' if mode == "DQ" else "'"
            if c == "\n":
                return None                  # unterminated literal
            if c == "\\":
                if k + 1 >= m or chars[k + 1][0] == "\n":
                    return None
                emit(c, ln)
                emit(chars[k + 1][0], chars[k + 1][1])
                k += 1
                if mode == "SQ":
                    sq_len += 1
            elif c == q:
                emit(c, ln)
                if mode == "SQ" and sq_len < 1:
                    return None              # '' is not a token; a multi-character constant ('ab', '/*') is a valid one
                mode = "N"
            else:
                emit(c, ln)
                if mode == "SQ":
                    sq_len += 1
        k += 1
    if mode in ("BLOCK", "DQ", "SQ"):
        return None
    if cur is not None:
        logical.append(cur)
    return counted, logical, total_lines


def real(text):
    """run the real c_file_source; -> (counted lines list, [(category, lines)] per yielded logical line)"""
    gen = file_source.c_file_source(io.StringIO(text))
    out = []
    try:
        while True:
            li = next(gen)
            out.append((li.category, list(li.lines), li.phys_interval()))
    except StopIteration as s:
        total = s.value
    counted = [ln for _, lines, _ in out for ln in lines]
    return counted, out, total


def texts(maxlen):
    for n in range(0, maxlen + 1):
        for t in itertools.product(ALPHA, repeat=n):
            yield "".join(t)


TOKENS = ["a", "b1", " ", "\t", "\n", "/", "*", "//c", "/*c*/", "/* m\nl */", '"s"', '"a//b"', '"/*"', "'c'", "'\\''", "'\"'",
          "\\\n", "#", "#define X 1", "#if A \\\n && B", "+", '"q\\"r"', "/*'*/", '//"', "  ", "/", "/\\\n/ c", "/\\\n* c */",
          # a line INSIDE a block comment that ends in "*" (the cleaner is then in its found-a-star sub-state at the line end),
          # alone and after code / a directive on the same logical line
          "/* m *\n l */", "/**\n*/", "#define F /* x *\n y */ 1", "a /* x *\n*/ b", "/* x **\n/ y */"]


def random_texts(rng, n):
    for _ in range(n):
        yield "".join(rng.choice(TOKENS) for _ in range(rng.randint(1, 12)))


class CountedLines:
    proved = False
    skip_slash = True
    role = "bounded stand-in for the composition c_cleaner.process / c_file_source vs the reference scanner (not counted as proved)"

    def bound(self, tier):
        return ("all texts of <= 5 characters over the 9-letter alphabet {a, blank, newline, / * \" ' \\ #} + 3000 random token-level texts"
                if tier == "quick" else
                "all texts of <= 7 characters over the 9-letter alphabet + 60000 random token-level texts with multi-line comments, literals and continuations")

    def inputs(self, tier, seed):
        for t in texts(5 if tier == "quick" else 7):
            yield {"text": t}
        rng = random.Random(seed)
        for t in random_texts(rng, 3000 if tier == "quick" else 60000):
            yield {"text": t}

    def nontrivial(self, inp):
        return getattr(self, "_valid", False)

    def check(self, inp):
        self._valid = False
        text = inp["text"]
        ref = reference(text)
        if ref is None:
            return None
        self._valid = True
        want, logical, nlines = ref
        try:
            got, out, total = real(text)
        except Exception as e:      # noqa: BLE001
            return {"expected": sorted(want), "observed": f"raised {type(e).__name__}: {e}", "klass": "lines:raises"}
        if "/\\\n" in text and self.skip_slash:
            return None                      # recorded finding, exhibited by the separate target below
        if len(got) != len(set(got)):
            return {"expected": "no line counted twice", "observed": got, "klass": "lines:counted-twice"}
        if any(not (1 <= x <= max(nlines, 1)) for x in got):
            return {"expected": f"lines within 1..{nlines}", "observed": got, "klass": "lines:outside-file"}
        if set(got) != want:
            kl = "lines:wrong-set"
            extra, missing = set(got) - want, want - set(got)
            lines = text.split("\n")
            if extra and all(lines[x - 1].strip(" \t") == "" or lines[x - 1].strip(" \t") == "\\" for x in extra if x - 1 < len(lines)) and not missing:
                kl = "lines:blank-line-inside-continued-literal"
            if missing and not extra and all(lines[x - 1].rstrip().endswith("/\\") and lines[x - 1].strip(" \t") == "/\\" for x in missing if x - 1 < len(lines)):
                kl = "lines:lone-slash-before-continuation"
            if "/\\\n" in text:
                kl = "lines:slash-immediately-before-backslash-newline"
            return {"expected": sorted(want), "observed": sorted(got), "klass": kl}
        # directives: a logical line whose first token is # is a directive covering all its counted lines
        dirs_ref = [sorted(l["lines"]) for l in logical if l["directive"]]
        dirs_real = [sorted(lines) for cat, lines, _ in out if cat == "CPP_DIRECTIVE"]
        if dirs_ref != dirs_real:
            return {"expected": f"directives {dirs_ref}", "observed": f"{dirs_real}", "klass": "lines:directive"}
        if total[0] != len(got):
            return {"expected": f"total sloc {len(got)}", "observed": total[0], "klass": "lines:total"}
        return None


class SlashFinding(CountedLines):
    skip_slash = False
    role = "exhibits a recorded finding"

    def bound(self, tier):
        return "4 texts"

    def inputs(self, tier, seed):
        for t in ("/\\\na\n", "a/\\\n \n", "int x = 4 /\\\n 2;\n", 'char *s = "a\\\n  \\\nb";\n'):
            yield {"text": t}


TARGETS = {"codebasin.file_source:c_cleaner.process": CountedLines(),
           "codebasin.file_source:c_file_source#recorded-findings": SlashFinding()}


# ---- recorded findings reported by defect hunting ---------------------------------------------------------------
from native import recorded as _R      # noqa: E402


def _x_hashhash():
    got = _R.counted_lines("##a\nb\n")
    return None if got == [1, 2] else ("[1, 2]: `##` is one token, the line is not a directive (gcc -E passes it through)", got)


def _x_digit_separator():
    got = _R.counted_lines("int x = 1'0 + '\"'; /* c\n c */\nint y;\n", ".cpp")
    return None if got == [1, 3] else ("[1, 3] (gcc -E, C++14 / C23 digit separator: line 2 is comment only)", got)


TARGETS["codebasin.file_source:c_file_source#recorded-findings-2"] = _R.Exhibits([
    ("lines:line-starting-with-##-taken-for-a-directive", "##a / b", _x_hashhash),
    ("lines:digit-separator-opens-a-character-constant", "int x = 1'0 + '\"'; /* c / c */ / int y;", _x_digit_separator),
])
