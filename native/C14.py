"""Native bounded stand-in for C14: the three front ends are run in fresh interpreter
processes under different PYTHONHASHSEED values and with the [platform.*] tables
permuted; the order-free views of their outputs must coincide."""
import json
import os
import re

from native import cli
from native.systarget import SysTarget


def dup_groups(out):
    groups, cur = [], None
    for line in out.splitlines():
        if line.startswith("Match "):
            cur = set()
            groups.append(cur)
        elif line.startswith("- ") and cur is not None:
            cur.add(line[2:].strip())
    return sorted(sorted(g) for g in groups)


class Determinism(SysTarget):
    def compare(self, sb, case, cfg, exp, used, state):
        plats = sorted(case["platforms"])
        views = []
        for seed, order, sd in ((0, plats, "forward"), (1, list(reversed(plats)), "reverse"), (4242, plats[1:] + plats[:1], "forward")):
            toml = cli.write_inputs(sb, case, cfg_order=order, tag=f"_{seed}")
            rc, out, err = cli.run("codebasin", ["-R", "summary", "-R", "duplicates", toml], sb.root, hashseed=seed, scandir=sd)
            if rc != 0:
                return {"expected": "codebasin succeeds", "observed": err[-300:], "klass": "determinism:fails"}
            rows, total, metrics = cli.parse_summary(out)
            rc, tout, err = cli.run("codebasin.tree", [toml], sb.root, hashseed=seed, scandir=sd)
            trows = sorted((r["name"].split()[-1], r["sloc"], r["cov"], r["avg"]) for r in cli.parse_tree(tout)) if rc == 0 else None
            covp = os.path.join(sb.root, f"cov_{seed}.json")
            rc, _, err = cli.run("codebasin.coverage", ["compute", "-S", sb.abs(case["codebase"]), "-o", covp,
                                                        os.path.join(sb.root, f"db_{plats[0]}.json")], sb.root, hashseed=seed, scandir=sd)
            cov = {r["file"]: (r["id"], sorted(r["used_lines"]), sorted(r["unused_lines"])) for r in json.load(open(covp))} if rc == 0 else None
            views.append({"summary": {",".join(sorted(k)): v for k, v in rows.items()}, "total": total, "metrics": metrics,
                          "duplicates": dup_groups(out), "tree": trows, "coverage": cov})
        for v in views[1:]:
            for k in views[0]:
                if v[k] != views[0][k]:
                    return {"expected": f"{k}: {str(views[0][k])[:300]}", "observed": str(v[k])[:300], "klass": "determinism:" + k}
        return None


class MetricSeeds:
    """the metric functions on fixed tables, each in 8 fresh interpreters with different PYTHONHASHSEED: identical
    floating-point results (the iteration order of a set of platform names must not reach a floating-point sum), and
    the members of a duplicates group in the same order"""
    proved = False
    role = "bounded check: metrics and duplicates listing under 8 hash seeds"

    TABLES = [
        {"a,b,c": 3, "b": 2, "c": 5},
        {"a": 1, "b": 2, "c": 4, "a,b": 3, "b,c": 1},
        {"p0,p1": 7, "p2": 1, "p3,p0": 2, "p1,p2,p3": 5, "p4": 11, "p4,p0": 3},
    ]

    def bound(self, tier):
        return f"{len(self.TABLES)} fixed tables x 8 hash seeds (divergence, average coverage, coverage) + one duplicates listing"

    def inputs(self, tier, seed):
        for k in range(len(self.TABLES) + 1):
            yield {"k": k}

    def nontrivial(self, inp):
        return True

    def check(self, inp):
        import subprocess
        import sys
        import tempfile
        import shutil
        k = inp["k"]
        env0 = dict(os.environ)
        env0["PYTHONPATH"] = cli.REPO
        env0["PYTHONWARNINGS"] = "ignore"
        if k < len(self.TABLES):
            t = self.TABLES[k]
            prog = ("from codebasin import report\n"
                    f"m = {{frozenset(k.split(',')): v for k, v in {t!r}.items()}}\n"
                    "print(repr(report.divergence(m)), repr(report.average_coverage(m)), repr(report.coverage(m)))\n")
            outs = {}
            for hs in range(8):
                env = dict(env0)
                env["PYTHONHASHSEED"] = str(hs)
                p = subprocess.run([sys.executable, "-c", prog], env=env, capture_output=True, text=True, timeout=60)
                outs.setdefault(p.stdout.strip() or p.stderr[-200:], []).append(hs)
            if len(outs) != 1:
                return {"expected": "one result for every PYTHONHASHSEED", "observed": {o: hs for o, hs in outs.items()},
                        "klass": "determinism:metrics-under-hash-seeds", "table": t}
            return None
        root = os.path.realpath(tempfile.mkdtemp(prefix="cbi_c14m_"))
        try:
            for n in ("x1.h", "x2.h", "x3.h", "sub/x4.h"):
                os.makedirs(os.path.dirname(os.path.join(root, n)), exist_ok=True)
                with open(os.path.join(root, n), "w") as fh:
                    fh.write("int same;\n")
            prog = ("import io\nfrom codebasin import CodeBase, report\n"
                    f"s = io.StringIO()\nreport.duplicates(CodeBase({root!r}), s)\nprint(s.getvalue())\n")
            outs = {}
            for hs in range(8):
                env = dict(env0)
                env["PYTHONHASHSEED"] = str(hs)
                p = subprocess.run([sys.executable, "-c", prog], env=env, capture_output=True, text=True, timeout=60)
                outs.setdefault(p.stdout.strip() or p.stderr[-200:], []).append(hs)
            if len(outs) != 1:
                return {"expected": "one listing for every PYTHONHASHSEED", "observed": {o[-120:]: hs for o, hs in outs.items()},
                        "klass": "determinism:duplicates-listing-under-hash-seeds"}
            return None
        finally:
            shutil.rmtree(root, ignore_errors=True)


TARGETS = {"codebasin.report:divergence": MetricSeeds(),
           "codebasin.finder:ParserState.get_setmap": Determinism("determinism", ("multi", "dupes", "links", "mixed", "linkinc", "redefine", "missing"), quick_n=12, thorough_n=80)}
