"""
Contracts for C04 -- #include resolution (codebasin/platform.py).

Spec (from the property statement): `Resolve(name, this_dir, angle, paths)` is
the first candidate abspath(join(d, name)) that is a regular file, d ranging
over ([] if angle else [this_dir]) ++ paths; None if there is none.  The
result may not depend on earlier lookups (memo history).
"""
import z3

from pyvc.contract import contract, lemma, LoopSpec, ObjSpec, CellOf
from pyvc.values import *  # noqa
from pyvc import bigop, ops
from pyvc import fsmodel as F
from pyvc.fsmodel import PATH

OPATH = Opt(PATH)
import os
KEY = TupleKey("inclkey", [("name", PATH), ("this", PATH), ("angle", BOOL)])
MEMO = MapOf(KEY, OPATH)
# The pinned tree (f8c92da) keyed the memo by the spelling alone.  With
# C04_SPELLING_KEY=1 the contract is typed for that shape; the only invariant such
# a memo admits from its own code is "every cached value is the resolution of the
# same spelling for SOME earlier (this_dir, angle)", under which the postcondition
# is refutable -- this is how the defect fixed in /repo was exhibited (DESIGN 9).
SPELLING_KEY = os.environ.get("C04_SPELLING_KEY") == "1"
if SPELLING_KEY:
    MEMO = MapOf(PATH, OPATH)

PLATFORM = ObjSpec("Platform", {
    "found_incl": CellOf(MEMO),
    "_include_paths": CellOf(SeqOf(PATH)),
    "_skip_includes": CellOf(SeqOf(PATH)),
})


def cands(this, angle, paths):
    return z3.Concat(z3.If(angle, z3.Empty(z3.SeqSort(PATH.sort())), z3.Unit(this)), paths)


def resolves_to(name, this, angle, paths, r):
    """r (an Opt[Path] term) is Resolve(name, this, angle, paths)"""
    cs = cands(this, angle, paths)
    n = z3.Length(cs)
    i, j = z3.Ints("rs!i rs!j")
    cand = lambda k: F.abspath(F.join(cs[k], name))     # noqa: E731
    srt = OPATH.sort()
    none_case = z3.And(srt.is_none(r), z3.ForAll([j], z3.Implies(z3.And(0 <= j, j < n), z3.Not(F.isfile(cand(j))))))
    some_case = z3.Exists([i], z3.And(0 <= i, i < n, F.isfile(cand(i)), r == srt.some(cand(i)),
                                      z3.ForAll([j], z3.Implies(z3.And(0 <= j, j < i), z3.Not(F.isfile(cand(j)))))))
    return z3.Or(none_case, some_case)


def memo_valid(memo, paths):
    """every cached answer is the resolution of its own key under the current search path"""
    if SPELLING_KEY:
        n = z3.Const("mv!n", PATH.sort())
        t = z3.Const("mv!t", PATH.sort())
        a = z3.Bool("mv!a")
        return z3.ForAll([n], z3.Implies(memo.dom[n], z3.Exists([t, a], resolves_to(n, t, a, paths, z3.Select(memo.valarr, n)))))
    k = z3.Const("mv!k", KEY.sort())
    return z3.ForAll([k], z3.Implies(memo.dom[k],
                                     resolves_to(KEY.field(k, 0), KEY.field(k, 1), KEY.field(k, 2), paths,
                                                 z3.Select(memo.valarr, k))))


f = contract("codebasin.platform:Platform.find_include_file", props=["C04", "C18"])
f.param("self", PLATFORM).param("filename", PATH).param("this_path", PATH).param("is_system_include", BOOL)
f.modifies = ["self.found_incl"]


@f.requires
def _(A):
    F.install_axioms()
    return [("memo-valid", memo_valid(A.self.found_incl, A.self._include_paths.t))]


@f.ensures
def _(A, R):
    r = ops.coerce(R.st, R.raw_result, OPATH)
    return [
        ("result==first-existing-candidate-in-search-order",
         resolves_to(A.filename.t, A.this_path.t, A.is_system_include.t, A.self._include_paths.t, r.t)),
        ("memo-valid-afterwards", memo_valid(R.new.self.found_incl, R.new.self._include_paths.t)),
    ]


def _loop_inv(L):
    name = L.args.filename.t
    j = z3.Int("li!j")
    return [("no-earlier-candidate-is-a-file",
             z3.ForAll([j], z3.Implies(z3.And(0 <= j, j < L.i),
                                       z3.Not(F.isfile(F.abspath(F.join(L.seq.t[j], name)))))))]


f.loop(0, LoopSpec(_loop_inv))

# ---------------------------------------------------------- once-list
s = contract("codebasin.platform:Platform.add_include_to_skip", props=["C04"])
s.param("self", PLATFORM).param("fn", PATH)
s.modifies = ["self._skip_includes"]


@s.ensures
def _(A, R):
    x = z3.Const("sk!x", PATH.sort())
    old, new = A.self._skip_includes.t, R.new.self._skip_includes.t
    return [("once-list==old+{fn}",
             z3.ForAll([x], z3.Contains(new, z3.Unit(x)) == z3.Or(z3.Contains(old, z3.Unit(x)), x == A.fn.t)))]


p = contract("codebasin.platform:Platform.process_include", props=["C04"])
p.param("self", PLATFORM).param("fn", PATH)


@p.ensures
def _(A, R):
    return [("process-iff-not-on-once-list",
             R.result.t == z3.Not(z3.Contains(A.self._skip_includes.t, z3.Unit(A.fn.t))))]


a = contract("codebasin.platform:Platform.add_include_path", props=["C04"])
a.param("self", PLATFORM).param("path", PATH)
a.modifies = ["self._include_paths"]


@a.ensures
def _(A, R):
    return [("appended-in-order", R.new.self._include_paths.t
             == z3.Concat(A.self._include_paths.t, z3.Unit(A.path.t)))]


UNITS = [
    "codebasin.platform:Platform.find_include_file",
    "codebasin.platform:Platform.add_include_to_skip",
    "codebasin.platform:Platform.process_include",
    "codebasin.platform:Platform.add_include_path",
]

ASSUMPTIONS = [
    "A4 static file system; os.path.join/abspath/isfile are pure functions/predicates of the path name",
    "include names, directories and resolved files are values of one abstract Path sort",
]
NOT_COVERED = [
    "IncludeNode.evaluate_for_platform / finder.find (call-site obligations for attribution, -include ordering): see evidence of later rounds",
    "macro state flowing in and out of the header is the platform object's identity (not proved here)",
]
EXPLANATION = ("Platform.find_include_file is proved to return the first existing candidate in compiler search order "
               "independently of the memo's history, under the memo invariant it re-establishes itself.")
