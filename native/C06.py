"""Native bounded stand-in for C06: the summary, tree and coverage front ends are run
on the same model code bases (with unused files, headers, nested directories,
file links) and their outputs are parsed back and compared with each other and
with the per-line attribution obtained in-process."""
import io
import json
import os
import re
import hashlib

from codebasin import report
from codebasin.preprocessor import CodeNode
from native import gen, sysrun, cli, refpp
from native.systarget import SysTarget


def strip(s):
    return re.sub(r"\033\[[0-9]*m", "", s)


class _Helpers:
    def _file_map(self, state, f):
        tree, assoc = state.get_tree(f), state.get_map(f)
        return [frozenset(assoc[n]) for n in tree.walk() if isinstance(n, CodeNode) and assoc[n]]

    def _check_dir_sums(self, rows, sb, case, per_file, members):
        # rebuild the hierarchy from indentation of the plain (non-tty) rendering
        stack = []
        sums = {}
        for r in rows:
            m = re.match(r"^([ |\\]*?)([|\\]?-)(o|-) (.*)$", r["name"])
            if not m:
                depth = 0
                nm = r["name"]
            else:
                depth = (len(m.group(1)) // 2) + 1
                nm = m.group(4)
            is_dir = nm.rstrip().endswith("/") or depth == 0
            del stack[depth:]
            if is_dir:
                stack.append(r)
                sums[id(r)] = [r, 0]
            else:
                if "->" in nm:
                    continue
                for d in stack:
                    try:
                        sums[id(d)][1] += int(r["sloc"])
                    except ValueError:
                        return None
        for r, s in sums.values():
            try:
                if int(r["sloc"]) != s:
                    return {"expected": f"directory row {r['name'].strip()!r} == sum of the files beneath it ({s})",
                            "observed": r["sloc"], "klass": "reports:tree-directory-sum"}
            except ValueError:
                return None
        return None

    def _fmt(self, m):
        return {",".join(sorted(k)) or "{}": v for k, v in sorted(m.items(), key=lambda kv: sorted(kv[0]))}



class Reports(_Helpers, SysTarget):
    def compare(self, sb, case, cfg, exp, used, state):
        cb, _ = None, None
        from codebasin import CodeBase
        cb = CodeBase(sb.abs(case["codebase"]), exclude_patterns=list(case["excludes"]))
        members = sorted(cb)
        canon = [f for f in members if not (os.path.islink(f) and os.path.realpath(f) in cb)]
        # ---- in-process ground truth: per canonical file, per code node, one platform set
        direct = {}
        per_file = {}
        for f in canon:
            tree, assoc = state.get_tree(f), state.get_map(f)
            m = {}
            for n in tree.walk():
                if isinstance(n, CodeNode):
                    k = frozenset(assoc[n])
                    m[k] = m.get(k, 0) + n.num_lines
            per_file[f] = m
            for k, v in m.items():
                direct[k] = direct.get(k, 0) + v
        setmap = dict(state.get_setmap(cb))
        if setmap != direct:
            return {"expected": self._fmt(direct), "observed": self._fmt(setmap), "klass": "reports:setmap"}
        total = sum(direct.values())
        # every counted line of every canonical member is in exactly one set
        sloc = sum(state.get_tree(f).root.total_sloc for f in canon)
        if total != sloc:
            return {"expected": f"total SLOC {sloc}", "observed": f"sum of platform sets {total}", "klass": "reports:total"}
        # ---- summary
        if total > 0:
            out = io.StringIO()
            report.summary(state.get_setmap(cb), stream=out)
            rows, tot, _ = cli.parse_summary(out.getvalue())
            want = {k: (v, f"{100.0 * v / total:.2f}") for k, v in direct.items()}
            # percentages are rendered from floating point: equal up to one unit in the last printed digit (A2)
            same = set(rows) == set(want) and all(rows[k][0] == want[k][0] and abs(float(rows[k][1]) - float(want[k][1])) <= 0.0101
                                                   for k in want)
            if not same or tot != total:
                return {"expected": str(self._fmt(want)) + f" total {total}",
                        "observed": str(self._fmt(rows)) + f" total {tot}", "klass": "reports:summary"}
        return None


class TreeReport(Reports):
    """cbi-tree: directory rows are sums over the files beneath, the unpruned root equals the
    summary total, --prune drops exactly the unused files, -L only hides rows"""

    def compare(self, sb, case, cfg, exp, used, state):
        from codebasin import CodeBase
        cb = CodeBase(sb.abs(case["codebase"]), exclude_patterns=list(case["excludes"]))
        members = sorted(cb)
        canon = [f for f in members if not (os.path.islink(f) and os.path.realpath(f) in cb)]
        per_file = {}
        total = sum(state.get_tree(f).root.total_sloc for f in canon)

        # ---- tree (unpruned, pruned, depth-limited)
        def tree_rows(**kw):
            out = io.StringIO()
            report.files(cb, state, stream=out, **kw)
            return cli.parse_tree(strip(out.getvalue()))
        full = tree_rows()
        if not full:
            return {"expected": "tree rows", "observed": "none", "klass": "reports:tree"}
        if total < 1000 and full[0]["sloc"] != str(total):
            return {"expected": f"root SLOC {total}", "observed": full[0]["sloc"], "klass": "reports:tree-root"}
        # directory rows are the sums of the file rows listed beneath them (links do not add)
        err = self._check_dir_sums(full, sb, case, per_file, members)
        if err:
            return err
        pruned = tree_rows(prune=True)
        usedfiles = {os.path.basename(f) for f in members
                     if any(k for k in self._file_map(state, f)) }
        names = lambda rows: [r["name"].split()[-1] for r in rows  # noqa: E731
                              if not r["name"].rstrip().endswith("/") and " -> " not in r["name"]]
        if sorted(names(pruned)) != sorted(
                os.path.basename(f) for f in members if any(self._file_map(state, f)) and not os.path.islink(f)):
            return {"expected": "pruned tree lists exactly the files some platform uses",
                    "observed": names(pruned), "klass": "reports:prune"}
        lim = tree_rows(levels=1)
        by_name = {r["name"]: r for r in full}
        for r in lim:
            if r["name"] not in by_name or by_name[r["name"]] != r:
                return {"expected": f"row {r['name']!r} identical to the unlimited tree", "observed": r,
                        "klass": "reports:levels"}
        return None

class Coverage(SysTarget):
    """cbi-cov compute (subprocess) vs the in-process attribution"""

    def compare(self, sb, case, cfg, exp, used, state):
        from codebasin import CodeBase
        p = sorted(cfg)[0]
        case1 = dict(case)
        case1["platforms"] = {p: case["platforms"][p]}
        cli.write_inputs(sb, case1)
        covp = os.path.join(sb.root, "cov.json")
        src = sb.abs(case["codebase"])
        args = ["compute", "-S", src, "-o", covp]
        for x in case["excludes"]:
            args += ["-x", x]
        rc, out, err = cli.run("codebasin.coverage", args + [os.path.join(sb.root, f"db_{p}.json")], sb.root)
        if rc != 0:
            return {"expected": "cbi-cov succeeds", "observed": err[-300:], "klass": "coverage:fails"}
        recs = json.load(open(covp))
        cb = CodeBase(src, exclude_patterns=list(case["excludes"]))
        members = sorted(cb)
        # expectation from the statement: the counted lines of the file (the model knows which physical lines hold code),
        # split by whether the reference preprocessor uses them for this platform -- not read back from the tool's own nodes
        ref = {(os.path.realpath(f), ln) for f, ln in exp[p][0]}
        model = {os.path.realpath(sb.abs(rel)): lines for rel, lines in case["files"].items()}
        want = {}
        for f in members:
            if os.path.islink(f) and os.path.realpath(f) in cb:
                continue                      # a link whose target is in the code base adds nothing (C15)
            rf = os.path.realpath(f)
            cnt = [no for no, ln in enumerate(model[rf], start=1) if refpp.counted(ln)]
            with open(f, "rb") as fh:
                h = hashlib.sha512(fh.read()).hexdigest()
            want[os.path.relpath(f, src)] = (h, [n for n in cnt if (rf, n) in ref], [n for n in cnt if (rf, n) not in ref])
        got = {}
        for r in recs:
            if r["file"] in got:
                return {"expected": "one record per file", "observed": r["file"], "klass": "coverage:duplicate-record"}
            got[r["file"]] = (r["id"], sorted(r["used_lines"]), sorted(r["unused_lines"]))
            if set(r["used_lines"]) & set(r["unused_lines"]):
                return {"expected": "used and unused disjoint", "observed": r["file"], "klass": "coverage:not-a-partition"}
        if got != want:
            diff = sorted(set(got) ^ set(want)) or [k for k in want if got[k] != want[k]][:3]
            kl = "coverage:record-for-link-to-member" if any(os.path.islink(os.path.join(src, d)) for d in set(got) - set(want)) else "coverage:records"
            return {"expected": {k: want.get(k) and want[k][1:] for k in diff}, "observed": {k: got.get(k) and got[k][1:] for k in diff},
                    "klass": kl}
        return None


TARGETS = {
    "codebasin.finder:ParserState.get_setmap": Reports("reports", ("multi", "links", "exclude", "zerosloc", "mlcomment"), quick_n=150, thorough_n=3000),
    "codebasin.report:FileTree.insert": TreeReport("tree", ("multi", "links", "exclude", "zerosloc", "mlcomment"), quick_n=150, thorough_n=3000),
    "codebasin.coverage.__main__:_compute": Coverage("coverage", ("links", "exclude", "dupes", "zerosloc", "mlcomment"), quick_n=10, thorough_n=150),
}
TARGETS["codebasin.finder:ParserState.get_setmap"].proved = True


# ---- an analysis for no platform at all (the quantifier says 0..4): every counted line lands in the empty set ----------
from native import recorded as _R      # noqa: E402


class NoPlatforms:
    proved = False
    role = "bounded check: analysis files without platforms, codebasin and cbi-tree as subprocesses"

    def bound(self, tier):
        return "2 analysis files (no [platform] table; an empty one) x 2 front ends"

    def inputs(self, tier, seed):
        yield {"toml": "[codebase]\nexclude = []\n"}
        yield {"toml": "[codebase]\nexclude = []\n\n[platform]\n"}

    def nontrivial(self, inp):
        return True

    def check(self, inp):
        import re
        with _R.tree({"a.c": "int a;\nint b;\n", "sub/h.h": "int h;\n/* c */\nint g;\n", "analysis.toml": inp["toml"]}) as root:
            rc, out, err = cli.run("codebasin", ["-R", "summary", os.path.join(root, "analysis.toml")], root)
            if rc != 0:
                return {"expected": "codebasin succeeds: every counted line in the empty platform set, Total SLOC 4", "observed": (err or out)[-200:],
                        "klass": "reports:no-platforms"}
            tot = re.search(r"Total SLOC: (\d+)", out)
            if not tot or tot.group(1) != "4":
                return {"expected": "Total SLOC: 4", "observed": out[-200:], "klass": "reports:no-platforms"}
            rc, out, err = cli.run("codebasin.tree", [os.path.join(root, "analysis.toml")], root)
            if rc != 0:
                return {"expected": "cbi-tree succeeds", "observed": (err or out)[-200:], "klass": "reports:no-platforms"}
        return None


TARGETS["codebasin.__main__:_main"] = NoPlatforms()


# ---- recorded findings reported by defect hunting -----------------------------------------------------------------------------
def _x_fixed_form():
    with _R.tree({"main.c": "int m;\n", "legacy.f": "      program p\n      end\n"}) as root:
        used = _R.used_lines(root, [{"file": os.path.join(root, "main.c"), "defines": [], "include_paths": [], "include_files": []}])
    return None if "legacy.f" in used else ("legacy.f is a code-base file (recognised extension): its lines are counted, unused", used)


def _x_include_beside_link():
    files = {"dirA/real.c": '#include "h.h"\nint real;\n', "dirA/h.h": "int from_A;\n", "dirB/h.h": "int from_B;\n"}
    with _R.tree(files) as root:
        os.symlink("../dirA/real.c", os.path.join(root, "dirB/link.c"))
        used = _R.used_lines(root, [{"file": os.path.join(root, "dirB/link.c"), "defines": [], "include_paths": [], "include_files": []}])
    return None if used.get("dirB/h.h") == [1] and not used.get("dirA/h.h") else (
        "dirB/h.h is read: gcc -E dirB/link.c looks beside the path it was given", used)


TARGETS["codebasin.finder:find#recorded-findings"] = _R.Exhibits([
    ("reports:fixed-form-fortran-file-in-the-code-base-aborts-the-analysis", "an unused legacy.f next to main.c", _x_fixed_form),
    ("reports:quoted-include-of-a-file-compiled-through-a-link", "dirB/link.c -> ../dirA/real.c with h.h in both directories", _x_include_beside_link)])
