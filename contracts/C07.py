"""
Contracts for C07 -- coverage, average coverage, distance, divergence equal
their definitions (codebasin/report.py).  Top-level postconditions come from
the property statement (pyvc.speclib); loop invariants from the code.
"""
import z3

from pyvc.contract import contract, lemma, LoopSpec, SumSpec
from pyvc.values import *  # noqa
from pyvc import bigop, ops
from pyvc import speclib as S
from pyvc.speclib import P, PSet, SetMap

FS = S.FS


def as_set(v):
    """value of the `platforms` local as a z3 set term (param is Optional)"""
    if isinstance(v, VOpt):
        return v.get().t
    return v.t


def selected(m, platforms):
    """H: the platforms argument as given (an empty selection stays empty); all platforms of the map only when it is absent"""
    if isinstance(platforms, VOpt):
        return z3.If(z3.Not(platforms.is_none()), platforms.get().t, S.all_platforms(m).t)
    return platforms.t


def fl(v):
    return ops.to_float(v)


# ---------------------------------------------------------------- coverage
c = contract("codebasin.report:coverage", props=["C07", "C14"])
c.param("setmap", SetMap).param("platforms", Opt(PSet)).result(FLOAT)


@c.ensures
def _(A, R):
    return [("result==100*Used/Tot,NaN-iff-no-lines-or-no-platforms", R.result.t == S.cov(A.setmap, selected(A.setmap, A.platforms)))]


c.loop(0, LoopSpec(lambda L: [
    ("total==Tot(seen)", L.total.t == S.Tot()(L.args.setmap.valarr, L.seen.t)),
    ("used==Used(seen)", L.used.t == S.Used()(L.args.setmap.valarr, as_set(L.platforms), L.seen.t)),
]))

# -------------------------------------------------------- average_coverage
a = contract("codebasin.report:average_coverage", props=["C07", "C14"])
a.param("setmap", SetMap).param("platforms", Opt(PSet)).result(FLOAT)


@a.ensures
def _(A, R):
    return [("result==mean-of-single-platform-coverages", R.result.t == S.avg(A.setmap, selected(A.setmap, A.platforms)))]


def _single(x):
    return z3.Store(z3.K(P.sort(), z3.BoolVal(False)), x.t, z3.BoolVal(True))


a.sum(0, SumSpec(value=lambda A, Sset: S.CovSum()(A.setmap.dom, A.setmap.valarr, Sset.t),
                 summand=lambda A, x: S.cov(A.setmap, _single(x))))

# ---------------------------------------------------------------- distance
d = contract("codebasin.report:distance", props=["C07", "C14"])
d.param("setmap", SetMap).param("p1", P).param("p2", P).result(FLOAT)


@d.ensures
def _(A, R):
    return [("result==Xor/Union (0 for two empty line sets), NaN-iff-no-lines", R.result.t == S.dist(A.setmap, A.p1.t, A.p2.t))]


d.loop(0, LoopSpec(lambda L: [
    ("total==Un(seen)", L.total.t == S.Un()(L.args.setmap.valarr, L.args.p1.t, L.args.p2.t, L.seen.t)),
    ("lines==Tot(seen)", L.lines.t == S.Tot()(L.args.setmap.valarr, L.seen.t)),
]))
d.loop(1, LoopSpec(lambda L: [
    ("d==Xo(seen)", L.d.t == S.Xo()(L.args.setmap.valarr, L.args.p1.t, L.args.p2.t, L.seen.t)),
]))

# ------------------------------------------------------- extract_platforms
e = contract("codebasin.report:extract_platforms", props=["C07", "C14"])
e.param("setmap", SetMap)


@e.ensures
def _(A, R):
    r = R.result
    x = z3.Const("x!ep", P.sort())
    i, j = z3.Ints("i!ep j!ep")
    return [
        ("members==all-platforms", z3.ForAll([x], r.has(x) == S.all_platforms(A.setmap).t[x])),
        ("duplicate-free", z3.ForAll([i, j], z3.Implies(z3.And(0 <= i, i < j, j < r.n), r.arr[i] != r.arr[j]))),
    ]


# -------------------------------------------------------------- divergence
g = contract("codebasin.report:divergence", props=["C07", "C14"])
g.param("setmap", SetMap).result(FLOAT)


@g.ensures
def _(A, R):
    return [("result==mean-pairwise-distance", R.result.t == S.div(A.setmap))]


def _div_inv(L):
    m = L.args.setmap
    anynan, s, n = S.div_over(m, L.seen.t)
    want = z3.If(anynan, FS().NaN, FS().Fin(s))
    return [
        ("npairs==card(seen)", L.npairs.t == n),
        ("d==sum-of-distances(seen)", fl(L.d).t == want),
    ]


def _div_hints(L):
    m = L.args.setmap
    return (bigop.card_facts(L.seen.t) + bigop.card_facts(L.domain.t)
            + [S.NaNCount().nonneg((m.dom, m.valarr), L.seen.t)])


g.loop(0, LoopSpec(_div_inv, kinds={"d": FLOAT}, hints=_div_hints))


# ------------------------------------------------------------------ lemmas
# Spec-level facts stated by the property (symmetry, ranges, scaling), proved
# from the big-operator theory (A10) over the same spec functions the code is
# proved equal to.  No code is involved.

def _m(tag="m"):
    class M:
        dom = z3.Const(tag + "!dom", z3.ArraySort(PSet.sort(), z3.BoolSort()))
        valarr = z3.Const(tag + "!val", z3.ArraySort(PSet.sort(), z3.IntSort()))
    return M


@lemma("distance-symmetric-and-zero-diagonal", props=["C07"])
def _():
    m = _m()
    a, b = z3.Consts("la lb", P.sort())
    hyps = [bigop.fin(m.dom),
            S.Un().congr((m.valarr, a, b), (m.valarr, b, a), m.dom),
            S.Xo().congr((m.valarr, a, b), (m.valarr, b, a), m.dom),
            S.Xo().zero((m.valarr, a, a), m.dom)]
    return [("Dist(a,b)==Dist(b,a)", hyps, S.dist(m, a, b) == S.dist(m, b, a)),
            ("Dist(a,a)==0-when-defined", hyps,
             z3.Or(FS().is_NaN(S.dist(m, a, a)), FS().fval(S.dist(m, a, a)) == 0))]


@lemma("ranges", props=["C07"])
def _():
    m = _m()
    H = z3.Const("lH", PSet.sort())
    a, b = z3.Consts("la lb", P.sort())
    base = [bigop.fin(m.dom), S.nonneg(m)]
    cov_h = base + [S.Used().nonneg((m.valarr, H), m.dom), S.Used().mono((m.valarr, H), S.Tot(), (m.valarr,), m.dom)]
    c = S.cov(m, H)
    d_h = base + [S.Xo().nonneg((m.valarr, a, b), m.dom),
                  S.Xo().mono((m.valarr, a, b), S.Un(), (m.valarr, a, b), m.dom),
                  S.Un().nonneg((m.valarr, a, b), m.dom)]
    d = S.dist(m, a, b)
    return [("0<=Cov<=100", cov_h, z3.Or(FS().is_NaN(c), z3.And(FS().fval(c) >= 0, FS().fval(c) <= 100))),
            ("0<=Dist<=1", d_h, z3.Or(FS().is_NaN(d), z3.And(FS().fval(d) >= 0, FS().fval(d) <= 1)))]


@lemma("scaling-invariance", props=["C07"])
def _():
    m = _m()
    H = z3.Const("lH", PSet.sort())
    a, b = z3.Consts("la lb", P.sort())
    cst = z3.Int("lc")
    k = z3.Const("lk", PSet.sort())
    val2 = z3.Const("m2!val", z3.ArraySort(PSet.sort(), z3.IntSort()))

    class M2:
        dom = m.dom
        valarr = val2
    hyps = [bigop.fin(m.dom), cst > 0, z3.ForAll([k], val2[k] == cst * m.valarr[k]),
            S.Tot().scaled((val2,), S.Tot(), (m.valarr,), cst, m.dom),
            S.Used().scaled((val2, H), S.Used(), (m.valarr, H), cst, m.dom),
            S.Un().scaled((val2, a, b), S.Un(), (m.valarr, a, b), cst, m.dom),
            S.Xo().scaled((val2, a, b), S.Xo(), (m.valarr, a, b), cst, m.dom)]
    return [("Cov(c*m)==Cov(m)", hyps, S.cov(M2, H) == S.cov(m, H)),
            ("Dist(c*m)==Dist(m)", hyps, S.dist(M2, a, b) == S.dist(m, a, b))]


@lemma("average-of-one-platform-is-its-coverage", props=["C07"])
def _():
    m = _m()
    h = z3.Const("lh", P.sort())
    single = z3.Store(z3.K(P.sort(), z3.BoolVal(False)), h, z3.BoolVal(True))
    hyps = [bigop.fin(m.dom)]
    return [("Avg({h})==Cov({h})", hyps, S.avg(m, single) == S.cov(m, single))]


UNITS = [
    "codebasin.report:coverage",
    "codebasin.report:average_coverage",
    "codebasin.report:distance",
    "codebasin.report:extract_platforms",
    "codebasin.report:divergence",
]

ASSUMPTIONS = [
    "A2 float = exact reals + NaN: rounding, overflow and the order-dependence of floating-point sums are not modelled; int/float distinction of a zero result ignored",
    "A10 finite-set / big-operator axioms and lemma instances (transcriptions of Mathlib lemmas, see trusted_base)",
    "counts in the map are integers (negative counts are only excluded where a range lemma needs it)",
    "itertools.combinations(list(set), 2) is modelled as: every 2-subset exactly once, orientation unspecified",
    "set()/dict iteration order is an arbitrary duplicate-free enumeration (universally quantified)",
]

NOT_COVERED = [
    "invariance under renaming of platforms is not a separate obligation: it follows from the spec functions not inspecting platform identity (parametricity), not proved here",
    "ranges of Avg and Div (only Cov and Dist are bounded by lemma); f-string rendering of the numbers; clustering/scipy",
]

EXPLANATION = ("Each metric function of codebasin/report.py is symbolically executed from its real ast and proved equal "
               "to the spec function taken from the property statement, for every finite map and every enumeration order; "
               "loops are cut by sum-over-seen-set invariants.")
