"""Native bounded stand-in for C15: model code bases decorated with file links,
directory links and redundant path segments; compile commands and -I options
refer to files through their aliases.  Attribution must land on the lines of
the one physical file (vs the reference on canonical paths), the counts must
equal those of the canonical files (C06 target), and the tree must not
propagate link counts."""
import native.C06 as C06
from native.systarget import SysTarget

import json
import os
import shutil
import tempfile


class DbDotDot:
    """a compile command naming its file through `<directory link>/../file`"""
    proved = False
    role = "bounded: one deterministic family (documents a known finding)"

    def bound(self, tier):
        return "3 spellings of one file through a directory link whose target has a different parent"

    def inputs(self, tier, seed):
        for sp in ("lnk_sub/../s0.c", "src/sub/../s0.c", "src/./s0.c"):
            yield {"spelling": sp}

    def nontrivial(self, inp):
        return True

    def check(self, inp):
        from codebasin import config
        root = os.path.realpath(tempfile.mkdtemp(prefix="cbi_c15db_"))
        try:
            os.makedirs(os.path.join(root, "src", "sub"))
            os.symlink(os.path.join(root, "src", "sub"), os.path.join(root, "lnk_sub"))
            with open(os.path.join(root, "src", "s0.c"), "w") as fh:
                fh.write("int x;\n")
            db = [{"directory": root, "file": inp["spelling"], "arguments": ["gcc", "-c", inp["spelling"]]}]
            p = os.path.join(root, "db.json")
            json.dump(db, open(p, "w"))
            out = config.load_database(p, root)
            want = os.path.join(root, "src", "s0.c")
            got = [os.path.realpath(e["file"]) for e in out]
            if got != [want]:
                kl = "load_database:dotdot-after-directory-link" if "lnk_sub/.." in inp["spelling"] else "load_database:alias"
                return {"expected": "src/s0.c (what the OS opens for this spelling)",
                        "observed": [os.path.relpath(g, root) for g in got] or "entry skipped as non-existent", "klass": kl}
            return None
        finally:
            shutil.rmtree(root, ignore_errors=True)


import native.C09 as _C09      # noqa: E402


def _spellings():
    t = _C09.Membership()
    t.no_patterns = True
    return t


TARGETS = {
    "codebasin.finder:ParserState._get_realpath": SysTarget("aliases", ("links", "aliases", "multi", "forced"), quick_n=200, thorough_n=3000),
    "codebasin.finder:ParserState.get_setmap": C06.Reports("reports", ("links", "aliases", "exclude", "outside"), quick_n=150, thorough_n=2000),
    "codebasin.report:FileTree.insert": C06.TreeReport("tree", ("links", "aliases", "exclude", "multi"), quick_n=150, thorough_n=2000),
    "codebasin.coverage.__main__:_compute": C06.Coverage("coverage", ("links",), quick_n=6, thorough_n=100),
    "codebasin.config:load_database": DbDotDot(),
    # membership and enumeration through every spelling (links to files, to directories, to the code-base directory itself)
    "codebasin:CodeBase.__contains__": _spellings(),
}
TARGETS["codebasin.finder:ParserState.get_setmap"].proved = True


# ---- recorded finding: `..` after a directory link inside an #include operand is cancelled lexically -------------------
from native import recorded as _R      # noqa: E402


def _x_include_dotdot_after_link():
    import os
    files = {"src/a.c": '#include "dl/../y.h"\nint a;\n', "other/y.h": "int other_y;\n", "other/sub/z.h": "int z;\n", "src/y.h": "int decoy;\n"}
    with _R.tree(files) as root:
        os.symlink("../other/sub", os.path.join(root, "src/dl"))
        used = _R.used_lines(root, [{"file": os.path.join(root, "src/a.c"), "defines": [], "include_paths": [], "include_files": []}])
    return None if used.get("other/y.h") == [1] and not used.get("src/y.h") else (
        "other/y.h is read (src/dl -> ../other/sub, so dl/../y.h is other/y.h: gcc -E)", used)


TARGETS["codebasin.platform:Platform.find_include_file#recorded-findings"] = _R.Exhibits([
    ("aliases:dotdot-after-a-directory-link-in-an-include-operand", '#include "dl/../y.h" with src/dl -> ../other/sub', _x_include_dotdot_after_link)])
