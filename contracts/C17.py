"""
Contracts for C17 -- free-form Fortran: comment / continuation handling and
preprocessor conditionals (codebasin/file_source.py: fortran_cleaner).

Proved: one step of fortran_cleaner.process (the body of its `while True` loop,
verified as a unit for each reachable state-stack shape) makes exactly the
transition, buffer calls, put-back and hand-over to the sentinel check that the
reference free-form scanner prescribes (table `ref_step`, trusted spec A9), for
every character; the directives-only pass of the C cleaner (shared with C05)
passes non-directive text through unchanged.  The composition over whole files
(fortran_file_source) and the conditional selection in Fortran files are bounded
stand-ins (native/C17.py).
"""
import z3

from pyvc.contract import contract, lemma, LoopSpec, ObjSpec, CellOf
from pyvc.values import *  # noqa
from pyvc.state import Exc, HeapObj
from pyvc import ops
import contracts.C05 as C05
from contracts.C05 import OBUF

TOP, ESC, VC, DQ, SQ, CFS = "TOPLEVEL", "ESCAPING", "VERIFY_CONTINUE", "DOUBLE_QUOTATION", "SINGLE_QUOTATION", "CONTINUING_FROM_SOL"
SHAPES = {"top": [TOP], "esc": [TOP, ESC], "amp": [TOP, VC], "dq": [TOP, DQ], "dq-esc": [TOP, DQ, ESC], "dq-amp": [TOP, DQ, VC],
          "sq": [TOP, SQ], "sq-esc": [TOP, SQ, ESC], "sq-amp": [TOP, SQ, VC], "cont": [TOP, CFS], "dq-cont": [TOP, DQ, CFS],
          "sq-cont": [TOP, SQ, CFS]}


def _next(ex, st, recv, pos, kw, node):
    c = STR.fresh(ex.ctx, "char")
    st.assume(z3.Length(c.t) == 1)
    st.ghost["char"] = c
    s2 = st.fork()
    return [(st, c), (s2, Exc("StopIteration", node.lineno))]


def _putback(ex, st, recv, pos, kw, node):
    st.ghost["putback"] = st.ghost.get("putback", ()) + (ops.deref(st, pos[0]),)
    return [(st, VNone())]


ITER = Abstract("IterKeep1F", methods={"__next__": _next, "putback": _putback})


def _builtin_next(ex, st, pos, kw, node, star):
    it = pos[0]
    if isinstance(it, VAtom) and isinstance(it.kind, Abstract) and "__next__" in it.kind.methods:
        return it.kind.methods["__next__"](ex, st, it, [], {}, node)
    from pyvc.state import Unsupported
    raise Unsupported("next() of an unmodelled iterator")


from pyvc.stubs import STUBS    # noqa: E402
STUBS["next"] = _builtin_next


def _dir_check(ex, st, env, node):
    st.ghost["dir_check"] = st.ghost.get("dir_check", 0) + 1
    return [(st, VNone())]


def ref_step(shape, cls):
    """reference free-form scanner, one character.
    -> (new shape, emits, putback?, sentinel-check-and-stop?, amp-buffer: 'push'|'flush'|'keep')"""
    if shape == "top":
        if cls == "bs":
            return "esc", [("nonspace", "c")], False, False, "keep"
        if cls == "bang":
            return "top", [], False, True, "keep"            # comment (or sentinel): rest of the line goes to dir_check
        if cls == "amp":
            return "amp", [], False, False, "push"           # possible continuation marker
        if cls == "dq":
            return "dq", [("nonspace", "c")], False, False, "keep"
        if cls == "sq":
            return "sq", [("nonspace", "c")], False, False, "keep"
        return "top", [("char", "c")], False, False, "keep"
    if shape in ("esc", "dq-esc", "sq-esc"):
        return {"esc": "top", "dq-esc": "dq", "sq-esc": "sq"}[shape], [("nonspace", "c")], False, False, "keep"
    if shape in ("dq", "sq"):
        q = "dq" if shape == "dq" else "sq"
        if cls == "bs":
            return shape + "-esc", [("nonspace", "c")], False, False, "keep"
        if cls == q:
            return "top", [("nonspace", "c")], False, False, "keep"
        if cls == "amp":
            return shape + "-amp", [], False, False, "push"
        return shape, [("nonspace", "c")], False, False, "keep"     # ! & // inside a literal are text
    if shape in ("amp", "dq-amp", "sq-amp"):
        below = {"amp": "top", "dq-amp": "dq", "sq-amp": "sq"}[shape]
        if cls == "bang" and shape == "amp":
            return shape, [], False, True, "keep"            # `& ! comment`: the line continues
        if cls == "space":
            return shape, [], False, False, "push"
        return below, "FLUSH", True, False, "flush"          # the & was text after all: emit what was held back, re-read c
    if shape in ("cont", "dq-cont", "sq-cont"):
        below = {"cont": "top", "dq-cont": "dq", "sq-cont": "sq"}[shape]
        if cls == "space":
            return shape, [("space", None)], False, False, "keep"
        if cls == "amp":
            return below, [], False, False, "keep"           # optional leading & of the continuation line
        if cls == "bang":
            return shape, [], False, True, "keep"            # comment line interleaved in the continued statement
        return below, [], True, False, "keep"
    raise ValueError(shape)


CLS = {"bs": "\\", "bang": "!", "amp": "&", "dq": '"', "sq": "'"}


def cls_cond(cls, char):
    from pyvc.stubs import char_class
    if cls in CLS:
        return char == z3.StringVal(CLS[cls])
    sp = char_class("isspace", char)
    others = z3.And([char != z3.StringVal(v) for v in CLS.values()])
    return z3.And(others, sp) if cls == "space" else z3.And(others, z3.Not(sp))


def _step(shape):
    key = f"codebasin.file_source:fortran_cleaner.process@loop0#{shape}"
    c = contract(key, props=["C17"])
    c.param("self", ObjSpec("fortran_cleaner", {
        "state": lambda ctx, st: st.alloc(HeapObj("cell", val=VSeq.of(STR, [VStr(x) for x in SHAPES[shape]]))),
        "outbuf": OBUF,
        # the held-back `&` (+ blanks): two arbitrary characters while verifying a continuation, empty otherwise
        "verify_continue": (lambda ctx, st: st.alloc(HeapObj("cell", val=VSeq.of(
            STR, [STR.fresh(ctx, "held0"), STR.fresh(ctx, "held1")] if shape.endswith("amp") else [])))) }))
    c.param("inbuffer", ITER)
    c.modifies = ["self"]
    c.opaque = {"codebasin.file_source:fortran_cleaner.dir_check": _dir_check}
    c.may_raise = {"StopIteration"}          # end of the line: handled by the enclosing try

    @c.ensures
    def _(A, R):
        char = R.st.ghost["char"].t
        st_cell = R.new.self.state
        items = [concrete_str(x.t) for x in st_cell.items] if st_cell.items is not None else None
        emits = R.st.ghost.get("emits", ())
        putback = R.st.ghost.get("putback", ())
        dirc = R.st.ghost.get("dir_check", 0)
        broke = R.st.ghost.get("broke", False)
        held0, held1 = A.self.verify_continue, R.new.self.verify_continue
        if isinstance(held1, VEmptySeq):
            held1 = VSeq.of(STR, [])
        out = []
        for cls in list(CLS) + ["space", "other"]:
            ns, want_emits, want_pb, want_stop, amp = ref_step(shape, cls)
            cond = cls_cond(cls, char)
            ok = items == SHAPES[ns] and ((len(putback) == 1) == want_pb) and (dirc == (1 if want_stop else 0)) and (bool(broke) == want_stop)
            extra = []
            if want_emits == "FLUSH":
                # every held-back character is emitted verbatim, in order
                ok = ok and all(k == "nonspace" for k, _ in emits) and len(emits) == len(held0.items)
                if ok:
                    extra += [a.t == h.t for (k, a), h in zip(emits, held0.items)]
                extra.append(held1.n == 0)
            else:
                ok = ok and len(emits) == len(want_emits) and all(k == wk for (k, _), (wk, _) in zip(emits, want_emits))
                if ok:
                    extra += [a.t == char for (k, a), (wk, wa) in zip(emits, want_emits) if wa == "c"]
                if amp == "push":
                    extra.append(held1.eq(held0.append(VStr(char))))
                elif amp == "keep":
                    extra.append(held1.eq(held0))
            if want_pb and len(putback) == 1:
                extra.append(putback[0].t == char)
            out.append((f"on {cls}: transition, buffer calls, put-back and sentinel hand-over are the reference scanner's",
                        z3.Implies(cond, z3.And([z3.BoolVal(bool(ok))] + extra))))
        return out
    return key


STEP_UNITS = [_step(s) for s in SHAPES]
UNITS = STEP_UNITS + [k for k in C05.STEP_UNITS if k.endswith("directives-only")] + C05.OSL_UNITS
ASSUMPTIONS = [
    "A9 the reference free-form scanner table is a trusted spec (Fortran 2018 6.3.2); backslash escapes in character literals are "
    "the code's (non-standard) and kept by the table",
    "fortran_cleaner.dir_check (sentinel recognition) is opaque here; its effect is covered by the bounded native run",
    "the held-back `&`/blank buffer (verify_continue) is concrete-length in the flush case (unrolled)",
]
NOT_COVERED = ["fixed-form Fortran (the code has no support)", "the composition over whole files and conditional selection: bounded (native/C17.py)",
               "the reference step table treats a backslash inside a character literal as an escape, as the code does (gfortran -fbackslash "
               "behaviour); standard Fortran has no escapes - recorded finding fortran:backslash-in-a-character-literal-taken-for-an-escape, "
               "outside the property's listed grammar"]
EXPLANATION = ("Per-step transition-table conformance of fortran_cleaner.process for every character and every stack shape; whole-file "
               "classification compared with a reference on all texts of <= 6/8 characters (bounded).")


# ================================================================ fortran_file_source: one line of the C pass
# The body of its `while True` loop as a unit.  A preprocessor directive flushes the pending (possibly continued)
# statement text BEFORE the directive is handed on, so that unconditional lines never end up inside the conditional
# they precede; other lines go through the Fortran cleaner and close the logical line unless it continues.
from pyvc.fsmodel import VHandle      # noqa: E402

SRCLINE = Abstract("CLine", attrs={"category": STR, "current_physical_end": INT, "flushed_line": STR,
                                    "lines": SeqOf(INT), "local_sloc": INT})


def _walker_next(ex, st, recv, pos, kw, node):
    v = SRCLINE.fresh(ex.ctx, "src_c_line")
    s2 = st.fork()
    return [(st, v), (s2, Exc("StopIteration", node.lineno))]


WALKER = Abstract("CWalker", methods={"__next__": _walker_next})


def _call(name, havoc_category=False, result=None):
    def h(ex, st, env, node):
        args = tuple(v for k, v in env.items() if k != "self")
        st.ghost["calls"] = st.ghost.get("calls", ()) + ((name, args),)
        if havoc_category:
            st.heap[env["self"].oid].fields["category"] = STR.fresh(ex.ctx, "logical_category")
            st.ghost["category_after_update"] = st.heap[env["self"].oid].fields["category"]
        return [(st, result.fresh(ex.ctx, name) if result is not None else VNone())]
    return h


def _f_process(ex, st, env, node):
    st.ghost["calls"] = st.ghost.get("calls", ()) + (("process", (env["lineiter"],)),)
    new = SeqOf(STR).fresh(ex.ctx, "fstate_after")
    st.assume(new.n >= 1)
    st.heap[st.heap[env["self"].oid].fields["state"].oid].val = new
    return [(st, VNone())]


PHYSF = Abstract("PhysLineF", methods={"__init__": C05._rec("phys_init"), "category": C05._category_rec})
ff = contract("codebasin.file_source:fortran_file_source@loop0", props=["C17"])
ff.param("c_walker", WALKER).param("current_physical_line", PHYSF)
ff.param("curr_line", ObjSpec("line_info", {"category": STR, "current_physical_start": Opt(INT)}))
ff.param("cleaner", ObjSpec("fortran_cleaner", {"state": CellOf(SeqOf(STR))}))
ff.param("current_physical_start", Opt(INT)).param("total_sloc", INT)
ff.modifies = ["cleaner", "cleaner.state", "curr_line"]
ff.opaque = {"codebasin.file_source:fortran_cleaner.process": _f_process,
             "codebasin.file_source:line_info.physical_update": _call("physical_update", havoc_category=True),
             "codebasin.file_source:line_info.physical_reset": _call("physical_reset", result=INT),
             "codebasin.file_source:line_info.add_physical_lines": _call("add_physical_lines"),
             "codebasin.file_source:line_info.join": _call("join")}
ff.may_raise = {"StopIteration"}


def _ff_setup(ctx, st):
    st.ghost["yield_cell"] = st.alloc(HeapObj("cell", val=VEmptySet()))
    st.ghost["calls"] = ()


ff.setup = _ff_setup


@ff.requires
def _(A):
    return [("stack-non-empty", A.cleaner.state.n >= 1)]


@ff.ensures
def _(A, R):
    calls = R.st.ghost.get("calls", ())
    names = [c[0] for c in calls]
    src = R.new.src_c_line if R.new.has("src_c_line") else None
    if src is None:
        return [("a line was fetched", z3.BoolVal(False))]
    is_dir = SRCLINE.attr(src, "category").t == z3.StringVal("CPP_DIRECTIVE")
    st_after = R.new.cleaner.state
    continues = st_after.arr[st_after.n - 1] == z3.StringVal("CONTINUING_FROM_SOL")
    cat_upd = R.st.ghost.get("category_after_update")
    nonblank = (cat_upd.t != z3.StringVal("BLANK")) if cat_upd is not None else z3.BoolVal(False)

    def is_seq(want):
        return names == want
    yields = [a[0] for n_, a in calls if n_ == "yield"]
    out = []
    # directive: flush pending text first, then hand the directive on
    dir_a = ["physical_update", "yield", "physical_reset", "yield"]
    dir_b = ["physical_update", "physical_reset", "yield"]
    ok_dir = is_seq(dir_a) or is_seq(dir_b)
    out.append(("directive: the pending statement is closed (and yielded if non-blank) BEFORE the directive is yielded",
                z3.Implies(is_dir, z3.BoolVal(ok_dir))))
    if ok_dir:
        last = yields[-1]
        out.append(("directive: the directive itself is yielded last, unchanged",
                    z3.Implies(is_dir, z3.BoolVal(isinstance(last, VAtom) and last.t.eq(src.t)))))
        out.append(("directive: the pending statement is yielded iff it is not BLANK",
                    z3.Implies(is_dir, z3.BoolVal(len(yields) == 2) == nonblank)))
    # ordinary line
    ord_cont = [["phys_init", "process", "category", "join"], ["phys_init", "process", "category", "add_physical_lines", "join"]]
    ord_end = [x + ["physical_update", "physical_reset"] for x in ord_cont] + [x + ["physical_update", "yield", "physical_reset"] for x in ord_cont]
    out.append(("statement line that continues: cleaned, recorded if non-blank, joined - the logical line stays open",
                z3.Implies(z3.And(z3.Not(is_dir), continues), z3.BoolVal(names in ord_cont))))
    out.append(("statement line that ends the statement: cleaned, recorded, joined, logical line closed and yielded iff non-blank",
                z3.Implies(z3.And(z3.Not(is_dir), z3.Not(continues)), z3.BoolVal(names in ord_end))))
    if names in ord_end:
        out.append(("statement: yielded iff the logical line is not BLANK",
                    z3.Implies(z3.And(z3.Not(is_dir), z3.Not(continues)), z3.BoolVal("yield" in names) == nonblank)))
    for n_, a in calls:
        if n_ == "add_physical_lines":
            cat = [x for c_, x in calls if c_ == "category"]
            out.append(("the C pass's physical lines are recorded iff the cleaned line is not BLANK",
                        z3.And(ops.deref(R.st, a[0]).eq(SRCLINE.attr(src, "lines")),
                               cat[0][0].t != z3.StringVal("BLANK")) if cat else z3.BoolVal(False)))
        if n_ == "physical_update":
            out.append(("the logical line ends where the C pass's line ends",
                        ops.deref(R.st, a[0]).t == SRCLINE.attr(src, "current_physical_end").t))
        if n_ == "process":
            h = a[0]
            okh = isinstance(h, VHandle) and h.tag == "islice"
            out.append(("the Fortran cleaner sees the whole text of the C pass's line",
                        z3.And(ops.deref(R.st, h.payload[0]).t == SRCLINE.attr(src, "flushed_line").t,
                               ops.deref(R.st, h.payload[1]).t == 0,
                               ops.deref(R.st, h.payload[2]).t == z3.Length(SRCLINE.attr(src, "flushed_line").t)) if okh else z3.BoolVal(False)))
    if "add_physical_lines" not in names and "category" in names:
        cat = [x for c_, x in calls if c_ == "category"][0][0]
        out.append(("a BLANK cleaned line is not recorded", cat.t == z3.StringVal("BLANK")))
    return out


UNITS = UNITS + ["codebasin.file_source:fortran_file_source@loop0"]
# "includes in Fortran files select lines exactly as they do in C files": an included file is scanned in the language
# insert_file records for its includer, so that record is part of what this property depends on
import contracts.C15 as _C15      # noqa: E402,F401
UNITS = UNITS + ["codebasin.finder:ParserState.insert_file"]
