"""native/gen.py -- seeded random model code bases (multi-directory, same header
name in several directories, guards / #pragma once, headers that define and
test macros, computed includes, -I order, -include, several platforms and
entries).  A case is a JSON-able dict; see `random_case`."""
import os
import random

from native.refpp import L

HEADERS = ["h.h", "g.h", "cfg.h"]
MACROS = ["A", "B", "M", "N"]      # A, B come from -D; M, N are defined by source lines (fixed value per case)
CMD_MACROS = ["A", "B"]
SRC_MACROS = {"M": "1", "N": "2"}


def _cond(rng):
    m = rng.choice(MACROS)
    return rng.choice([
        L("ifdef", name=m), L("ifndef", name=m), L("if", expr=("id", m)),
        L("if", expr=("defined", m)), L("if", expr=("eq", ("id", m), ("num", rng.choice([0, 1, 2])))),
        L("if", expr=("and", ("defined", m), ("not", ("defined", rng.choice(MACROS))))),
        L("if", expr=("minus1", m)),
    ])


def _block(rng, depth, include_ok, hdr_names):
    """a few lines: code, defines, conditionals, includes"""
    out = []
    for _ in range(rng.randint(1, 4)):
        r = rng.random()
        if r < 0.35:
            out.append(L("code"))
        elif r < 0.5:
            m = rng.choice(list(SRC_MACROS))
            out.append(L("define", name=m, value=SRC_MACROS[m]))
        elif r < 0.55:
            out.append(L("undef", name=rng.choice(list(SRC_MACROS))))
        elif r < 0.8 and depth < 2:
            out.append(_cond(rng))
            out += _block(rng, depth + 1, include_ok, hdr_names)
            if rng.random() < 0.3:
                c = rng.choice(MACROS)
                out.append(L("elif", expr=rng.choice([("defined", c), ("id", c), ("num", 0)])))
                out += _block(rng, depth + 1, include_ok, hdr_names)
            if rng.random() < 0.5:
                out.append(L("else"))
                out += _block(rng, depth + 1, include_ok, hdr_names)
            out.append(L("endif"))
        elif include_ok and hdr_names:
            out.append(L("include", name=rng.choice(hdr_names), angle=rng.random() < 0.4))
        else:
            out.append(L("code"))
    return out


def _header(rng, name, idx, others):
    style = rng.choice(["guard", "once", "none", "guard"])
    body = _block(rng, 0, bool(others) and rng.random() < 0.4, others)
    if rng.random() < 0.4:
        body.insert(rng.randrange(len(body) + 1), L("comment"))      # a C comment line: not code in a C header
    body.append(L("code", text=f"int {name[0]}{idx};"))
    if style == "guard":
        g = f"G_{name[0].upper()}{idx}"
        return [L("ifndef", name=g), L("define", name=g, value="")] + body + [L("endif")]
    if style == "once":
        return [L("pragma_once")] + body
    # unguarded headers must not define value macros twice with different values: keep only code/conditionals
    return [x for x in body if x["kind"] not in ("define", "undef")] or [L("code")]


def random_case(rng, features=()):
    """features: subset of {'computed', 'forced', 'missing', 'unknown', 'outside', 'links', 'exclude', 'multi'}"""
    files = {}
    dirs = ["cb/src", "cb/src/sub", "cb/inc", "cb/sys"]
    if "outside" in features:
        # outside the code base; sometimes in a sibling directory whose NAME merely extends the code-base directory's name
        dirs.append(rng.choice(["ext", "cb_ext"]))
    # headers: each name in 1..3 directories, different content per directory
    placed = {}
    for hi, h in enumerate(HEADERS):
        others = HEADERS[hi + 1:]           # acyclic include graph: a header includes only later names
        for di, d in enumerate(rng.sample(dirs, rng.randint(1, 3))):
            files[f"{d}/{h}"] = _header(rng, h, di + 10 * hi, others)
            placed.setdefault(h, []).append(d)
    srcs = []
    for si in range(rng.randint(1, 3)):
        d = rng.choice(["cb/src", "cb/src/sub"])
        ext = "F90" if "fortran" in features else "c"
        if "mixed" in features:
            ext = "F90" if si % 2 == 0 else "c"
        rel = f"{d}/s{si}." + ext
        body = []
        for _ in range(rng.randint(1, 3)):
            h = rng.choice(HEADERS)
            if "computed" in features and rng.random() < 0.35:
                body.append(L("include_macro", macro="INC_" + h[0].upper()))
            else:
                name = h
                if "missing" in features and rng.random() < 0.3:
                    name = "nope_" + h
                body.append(L("include", name=name, angle=rng.random() < 0.4))
            body += _block(rng, 0, False, [])
        if "unknown" in features and rng.random() < 0.7:
            body.insert(rng.randrange(len(body) + 1),
                        L("unknown", text=rng.choice(["#foo bar", "#warning w", "#line 7", "#error e", "#ident \"x\"", "#sccs y"])))
        if "redefine" in features:
            for m in CMD_MACROS:          # lines whose attribution depends on the VALUE a command-line macro ends up with
                body += [L("if", expr=("eq", ("id", m), ("num", 1))), L("code"), L("elif", expr=("eq", ("id", m), ("num", 2))),
                         L("code"), L("elif", expr=("eq", ("id", m), ("num", 3))), L("code"), L("else"), L("code"), L("endif")]
        files[rel] = body
        srcs.append(rel)
    if "mlcomment" in features:
        # a block comment that starts after code, covers a whole line and ends before code: one logical line whose
        # physical lines are not all counted (drawn from a side generator: the main stream is left as it was)
        r2 = random.Random(rng.getstate()[1][0] ^ 0x6D6C63)
        for rel in sorted(files):
            if r2.random() < 0.5:
                at = r2.randrange(len(files[rel]) + 1)
                files[rel][at:at] = [L("mlc_open"), L("mlc_mid"), L("mlc_close")]
    twinned = []
    if "dupes" in features:
        # byte-identical twins that are used differently (never compiled / never included)
        src = rng.choice(srcs)
        files[os.path.dirname(src) + "/dup_" + os.path.basename(src)] = list(files[src])
        hdrs = [k for k in files if k.endswith(".h")]
        h = rng.choice(hdrs)
        files["cb/src/sub/twin_" + os.path.basename(h)] = list(files[h])
        twinned = [src, os.path.dirname(src) + "/dup_" + os.path.basename(src), h, "cb/src/sub/twin_" + os.path.basename(h)]
    if "zerosloc" in features:
        # code-base files without a single countable line (empty; comments and blank lines only): still members
        files["cb/src/empty.h"] = []
        files["cb/inc/notes.h"] = [L("comment"), L("blank"), L("comment")]
        if rng.random() < 0.5:
            files["cb/src/sub/todo.c"] = [L("comment")]
    links = {}
    if "links" in features:
        tgt = rng.choice(srcs + [k for k in files if k.endswith(".h")])
        d = rng.choice(["cb/src", "cb/src/sub", "cb/inc"])
        r2 = random.Random(rng.getstate()[1][0] ^ 0x74776E)
        if twinned and r2.random() < 0.6:
            tgt = r2.choice(twinned)        # a link to a file that has a byte-identical twin (the link is not a third copy)
            if r2.random() < 0.7:
                d = os.path.dirname(tgt)    # ... listed by the same directory as its target, before or after it
        links[d + "/link_" + os.path.basename(tgt)] = ("rel:" if rng.random() < 0.5 else "") + tgt
        if rng.random() < 0.5:
            links["cb/lnkdir"] = "cb/inc"
    if "linkinc" in features:
        # a code-base header that every source also includes through a symbolic link beside it (another spelling
        # of the same file, reached from several translation units and platforms)
        hp = rng.choice(sorted(k for k in files if k.endswith(".h") and k.startswith("cb/")))
        via = "via_" + os.path.basename(hp)
        for src in srcs:
            links[os.path.dirname(src) + "/" + via] = ("rel:" if rng.random() < 0.5 else "") + hp
            files[src].insert(rng.choice([0, len(files[src])]), L("include", name=via, angle=False))
    nplat = rng.randint(2, 3) if "multi" in features else 1
    platforms = {}
    for pi in range(nplat):
        entries = []
        for _ in range(rng.randint(1, 2 if "multi" in features else 1)):
            src = rng.choice(srcs)
            idirs = rng.sample([d for d in dirs if d != os.path.dirname(src)], rng.randint(0, 3))
            if "missing" not in features or rng.random() < 0.5:
                for h in HEADERS:           # make most headers reachable (by -I or beside the source)
                    if rng.random() < 0.8 and not any(d in idirs for d in placed[h]):
                        idirs.insert(rng.randrange(len(idirs) + 1), rng.choice(placed[h]))
            defines = []
            for m in rng.sample(CMD_MACROS, rng.randint(0, 2)):
                defines.append(rng.choice([m, m + "=0", m + "=2", m + "=1"] + ([m + "="] if rng.random() < 0.3 else [])))
            if "redefine" in features:
                # which of several definitions wins is the tool's choice; keep every candidate value a valid #if operand
                defines = [d for d in defines if not d.endswith("=")]
            if "redefine" in features and defines:
                # the same macro given several times with different values (only for order/hash-seed independence
                # checks: which one wins is the tool's choice, but it must always be the same one)
                m = defines[0].split("=")[0]
                defines += [m + "=" + v for v in rng.sample(["0", "1", "2", "3"], 3)]
            if "computed" in features:
                for h in HEADERS:
                    q = rng.random() < 0.5
                    defines.append(f"INC_{h[0].upper()}=" + (f'"{h}"' if q else f"<{h}>"))
            forced = []
            if "forced" in features and rng.random() < 0.7:
                forced = [rng.choice(HEADERS)]
                if rng.random() < 0.3:
                    # a forced include whose name has no source extension: parsed in the language of the file it is forced into
                    pre = os.path.dirname(src) + "/pre.def"
                    files.setdefault(pre, [L("define", name="M", value=SRC_MACROS["M"]), L("code"), L("ifdef", name="A"), L("code"), L("endif")])
                    forced = rng.choice([["pre.def"], ["pre.def"] + forced, forced + ["pre.def"]])
            entries.append({"file": src, "defines": defines, "include_paths": idirs, "include_files": forced})
        platforms[f"p{pi}"] = entries
    if "aliases" in features:
        # the same files reached through a directory link with a different parent, and through ./.. segments
        files.setdefault("cb/src/sub/keep.h", [L("code")])
        links["cb/lnk_sub"] = "cb/src/sub"
        r2 = random.Random(rng.getstate()[1][0] ^ 0x6F6E6365)
        if r2.random() < 0.6:
            # a #pragma once header included twice by one translation unit, the second time under the name of a link to
            # it, with a macro the header tests defined in between: the second include must do nothing
            files["cb/src/sub/once.h"] = [L("pragma_once"), L("ifdef", name="LATE"), L("code", text="int late;"), L("endif"), L("code")]
            links["cb/inc/once_too.h"] = ("rel:" if r2.random() < 0.5 else "") + "cb/src/sub/once.h"
            src = r2.choice(srcs)
            files[src] += [L("include", name="once.h", angle=True), L("define", name="LATE", value=""),
                           L("include", name="once_too.h", angle=True), L("code")]
            for entries in platforms.values():
                for e in entries:
                    if e["file"] == src:
                        e["include_paths"] += [x for x in ("cb/src/sub", "cb/inc") if x not in e["include_paths"]]
        r3 = random.Random(rng.getstate()[1][0] ^ 0x686F7073)
        if r3.random() < 0.6:
            # a compile command that names its file through a TWO-step alias kept beside the file: a link to a link, or
            # a link whose target passes through a directory link (one readlink does not reach the physical file)
            e = r3.choice([e for entries in platforms.values() for e in entries])
            c, e["hop"] = e["file"], True
            d, b = os.path.dirname(c), os.path.basename(c)
            rel = lambda: "rel:" if r3.random() < 0.5 else ""      # noqa: E731
            if r3.random() < 0.5:
                links[d + "/hop2_" + b] = rel() + c
                links[d + "/hop1_" + b] = rel() + d + "/hop2_" + b
                e["file"] = d + "/hop1_" + b
            else:
                links["cb/lnk_hop"] = d
                links[d + "/hopd_" + b] = rel() + "cb/lnk_hop/" + b
                e["file"] = d + "/hopd_" + b
        for entries in platforms.values():
            for e in entries:
                if e.pop("hop", False):
                    continue
                d, b = os.path.dirname(e["file"]), os.path.basename(e["file"])
                r = rng.random()
                if d == "cb/src" and r < 0.4:
                    e["file"] = "cb/lnk_sub/../" + b
                elif r < 0.7:
                    e["file"] = d + "/./../" + os.path.basename(d) + "/" + b
                e["include_paths"] = [(os.path.dirname(x) + "/" + os.path.basename(x) + "/../" + os.path.basename(x))
                                      if rng.random() < 0.4 else ("cb/lnk_sub" if x == "cb/src/sub" and rng.random() < 0.7 else x)
                                      for x in e["include_paths"]]
    excludes = []
    if "exclude" in features:
        excludes = rng.sample(["*.h", "sub/", "s0.c", "inc/*", "/sys", "g.h"], rng.randint(1, 2))
        if rng.random() < 0.3:
            excludes = rng.choice([["*.h", "!h.h"], ["inc/*", "!inc/g.h"], ["*.h", "!cfg.h", "s1.c"]])   # order matters
        r4 = random.Random(rng.getstate()[1][0] ^ 0x616E6368)
        if r4.random() < 0.35:
            # an ANCHORED directory pattern: /sub/ names cb/sub only (no such directory), not cb/src/sub - it removes nothing
            excludes.insert(r4.randrange(len(excludes) + 1), r4.choice(["/sub/", "/sub"]))
    return {"files": files, "links": links, "platforms": platforms, "excludes": excludes, "codebase": "cb"}


def configuration(sb, case, select=None, entry_filter=None):
    cfg = {}
    for p, entries in case["platforms"].items():
        if select is not None and p not in select:
            continue
        es = []
        for i, e in enumerate(entries):
            if entry_filter is not None and not entry_filter(p, i):
                continue
            es.append({"file": sb.abs(e["file"]), "defines": list(e["defines"]),
                       "include_paths": [sb.abs(d) for d in e["include_paths"]],
                       "include_files": list(e["include_files"])})
        cfg[p] = es
    return cfg
