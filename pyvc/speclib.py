"""
pyvc.speclib -- spec functions shared by several contract files: the metric
definitions of C07 over an abstract map  m : Set(Plat) -> Int.

These are written from the *property statements*, not from the code.
"""
import z3

from .values import *  # noqa
from . import bigop
from .bigop import BigSum

P = Atom("Plat")
PSet = SetOf(P)
SetMap = MapOf(PSet, INT)

_ps = PSet.sort()
_val = z3.ArraySort(_ps, z3.IntSort())
_p = P.sort()

_memo = {}


def _once(name, build):
    if name not in _memo:
        _memo[name] = build()
    return _memo[name]


def reset():
    _memo.clear()


def Inter():
    """Inter(k,H) <=> k and H share an element"""
    def build():
        f = z3.Function("Inter", _ps, _ps, z3.BoolSort())
        k, H = z3.Consts("in!k in!H", _ps)
        p = z3.Const("in!p", _p)
        bigop.add_axiom("Inter", z3.ForAll([k, H], z3.Implies(f(k, H), z3.Exists([p], z3.And(k[p], H[p]))),
                                           patterns=[f(k, H)]), "definition of Inter (=>)")
        bigop.add_axiom("Inter", z3.ForAll([k, H, p], z3.Implies(z3.And(k[p], H[p]), f(k, H)),
                                           patterns=[z3.MultiPattern(k[p], H[p], f(k, H))]),
                        "definition of Inter (<=)")
        return f
    return _once("Inter", build)


def Tot():
    return _once("Tot", lambda: BigSum("Tot", [("val", _val)], _ps, lambda val, k: val[k]))


def Used():
    I = Inter()
    return _once("Used", lambda: BigSum("Used", [("val", _val), ("H", _ps)], _ps,
                                        lambda val, H, k: z3.If(I(k, H), val[k], 0)))


def Un():
    return _once("Un", lambda: BigSum("Un", [("val", _val), ("a", _p), ("b", _p)], _ps,
                                      lambda val, a, b, k: z3.If(z3.Or(k[a], k[b]), val[k], 0)))


def Xo():
    return _once("Xo", lambda: BigSum("Xo", [("val", _val), ("a", _p), ("b", _p)], _ps,
                                      lambda val, a, b, k: z3.If(z3.Xor(k[a], k[b]), val[k], 0)))


def all_platforms(m):
    from .calls import union_of_keys
    return union_of_keys(m)


def FS():
    from .values import _float_sort
    return _float_sort()


def cov(m, H):
    """Cov(m,H) = 100 * Used(H) / Tot ; NaN iff undefined: no lines (Tot == 0) or no platforms (H empty)   (a Float term)"""
    tot = Tot()(m.valarr, m.dom)
    used = Used()(m.valarr, H, m.dom)
    return z3.If(z3.Or(tot == 0, H == z3.K(_p, z3.BoolVal(False))), FS().NaN, FS().Fin(z3.ToReal(used) / z3.ToReal(tot) * 100))


def CovSum():
    """sum over h in S of the (real) value of Cov(m,{h})"""
    def build():
        dom_s = z3.ArraySort(_ps, z3.BoolSort())

        def summand(dom, val, h):
            single = z3.Store(z3.K(_p, z3.BoolVal(False)), h, z3.BoolVal(True))
            tot = Tot()(val, dom)
            used = Used()(val, single, dom)
            return z3.ToReal(used) / z3.ToReal(tot) * 100
        return BigSum("CovSum", [("dom", dom_s), ("val", _val)], _p, summand, real=True)
    return _once("CovSum", build)


def avg(m, H):
    """Avg(m,H) = (sum_{h in H} Cov(m,{h})) / |H| ; NaN iff |H| == 0 or Tot == 0"""
    tot = Tot()(m.valarr, m.dom)
    n = bigop.card(H)
    s = CovSum()(m.dom, m.valarr, H)
    return z3.If(z3.Or(H == z3.K(_p, z3.BoolVal(False)), tot == 0), FS().NaN, FS().Fin(s / z3.ToReal(n)))


def dist(m, a, b):
    """Dist(m,a,b) = Jaccard distance of the two line sets = Xo/Un ; 0 when both are empty (Un == 0: equal sets);
    NaN iff undefined: the table has no lines (Tot == 0)"""
    un = Un()(m.valarr, a, b, m.dom)
    xo = Xo()(m.valarr, a, b, m.dom)
    tot = Tot()(m.valarr, m.dom)
    return z3.If(tot == 0, FS().NaN, z3.If(un == 0, FS().Fin(z3.RealVal(0)), FS().Fin(z3.ToReal(xo) / z3.ToReal(un))))


def pairs_of(S):
    """the set of 2-element subsets of S, as a VSet of sets"""
    key = "Pairs"
    def build():
        f = z3.Function("Pairs", _ps, z3.ArraySort(_ps, z3.BoolSort()))
        s, q = z3.Consts("pr!s pr!q", _ps)
        a, b = z3.Consts("pr!a pr!b", _p)
        two = z3.Store(z3.Store(z3.K(_p, z3.BoolVal(False)), a, z3.BoolVal(True)), b, z3.BoolVal(True))
        bigop.add_axiom("Pairs", z3.ForAll([s, q], z3.Implies(
            f(s)[q], z3.Exists([a, b], z3.And(a != b, s[a], s[b], q == two))), patterns=[f(s)[q]]),
            "definition of the set of 2-subsets (=>)")
        # (<=) fires only for an existing membership term: firing on (s[a], s[b]) would
        # build new pair terms whose (=>) skolems build new pairs again (matching loop)
        bigop.add_axiom("Pairs", z3.ForAll([s, a, b], z3.Implies(z3.And(a != b, s[a], s[b]), f(s)[two]),
                                           patterns=[f(s)[two]], qid="Pairs_intro"),
                        "definition of the set of 2-subsets (<=)")
        bigop.add_axiom("Pairs", z3.ForAll([s], z3.Implies(bigop.fin(s), bigop.fin(f(s))), patterns=[f(s)]),
                        "Finset.powersetCard finite")
        return f
    f = _once(key, build)
    return VSet(PSet, f(S.t))


def DistQ():
    """distance of an unordered pair q = {a,b}; well defined because Dist is
    symmetric (lemma C07/dist-symmetric is discharged separately)."""
    def build():
        dom_s = z3.ArraySort(_ps, z3.BoolSort())
        fval = z3.Function("DistQ", dom_s, _val, _ps, FS())
        d = z3.Const("dq!d", dom_s)
        v = z3.Const("dq!v", _val)
        a, b = z3.Consts("dq!a dq!b", _p)
        two = z3.Store(z3.Store(z3.K(_p, z3.BoolVal(False)), a, z3.BoolVal(True)), b, z3.BoolVal(True))

        class M:
            dom, valarr = d, v
        bigop.add_axiom("DistQ", z3.ForAll([d, v, a, b], z3.Implies(a != b, fval(d, v, two) == dist(M, a, b)),
                                           patterns=[fval(d, v, two)]),
                        "definition of DistQ on {a,b} (conservative given lemma dist-symmetric)")
        return fval
    return _once("DistQ", build)


def DistSum():
    """sum over pairs q in S of the real value of DistQ(q)"""
    def build():
        dom_s = z3.ArraySort(_ps, z3.BoolSort())
        dq = DistQ()
        return BigSum("DistSum", [("dom", dom_s), ("val", _val)], _ps,
                      lambda dom, val, q: FS().fval(dq(dom, val, q)), real=True)
    return _once("DistSum", build)


def NaNCount():
    """number of pairs q in S whose distance is NaN"""
    def build():
        dom_s = z3.ArraySort(_ps, z3.BoolSort())
        dq = DistQ()
        return BigSum("NaNCount", [("dom", dom_s), ("val", _val)], _ps,
                      lambda dom, val, q: z3.If(FS().is_NaN(dq(dom, val, q)), 1, 0))
    return _once("NaNCount", build)


def div_over(m, prs_t):
    """mean of DistQ over the pair set prs_t in NaN arithmetic (a NaN term makes the sum NaN)"""
    n = bigop.card(prs_t)
    s = DistSum()(m.dom, m.valarr, prs_t)
    anynan = NaNCount()(m.dom, m.valarr, prs_t) > 0
    return anynan, s, n


def div(m):
    """Div(m) = mean of DistQ over all 2-subsets of the platforms; NaN iff there
    is no pair or some pair's distance is NaN"""
    prs = pairs_of(all_platforms(m))
    anynan, s, n = div_over(m, prs.t)
    return z3.If(z3.Or(prs.is_empty(), anynan), FS().NaN, FS().Fin(s / z3.ToReal(n)))


def nonneg(m):
    k = z3.Const("nn!k", _ps)
    return z3.ForAll([k], z3.Implies(m.dom[k], m.valarr[k] >= 0))
