#!/bin/bash
# tools/eval_mutant.sh <mutant dir with patch.diff demo.py> <prop> [<prop>...]
# 1. confirms in a scratch worktree: suite passes with the patch, demo fails with / passes without
# 2. applies the patch to /repo, runs the listed checks, and undoes it straight afterwards
set -u
M=$(realpath "$1"); shift
WT=/tmp/wt_confirm
if [ ! -d $WT ]; then git -C /repo worktree add -q --detach $WT HEAD; fi
git -C $WT checkout -q --detach $(git -C /repo rev-parse HEAD) 2>/dev/null
git -C $WT checkout -q -- . ; rm -f $WT/cbi.log
echo "== confirm $M"
( cd $WT && git apply "$M/patch.diff" ) || { echo "PATCH DOES NOT APPLY"; exit 9; }
( cd $WT && /venv/bin/python -m pytest -q -p no:cacheprovider tests 2>&1 | tail -1 )
( cd $WT && cp "$M/demo.py" ./_demo.py && timeout 120 /venv/bin/python _demo.py >/dev/null 2>&1; echo "demo with mutant: exit $?" )
( cd $WT && git checkout -q -- . && timeout 120 /venv/bin/python _demo.py >/dev/null 2>&1; echo "demo without mutant: exit $?"; rm -f _demo.py cbi.log )
echo "== checks on /repo with the patch"
git -C /repo apply "$M/patch.diff" || { echo "cannot apply to /repo"; exit 9; }
for p in "$@"; do
  out=$(cd /verif && timeout 900 ./check $p --tier quick 2>&1); rc=$?
  echo "check $p exit=$rc"; echo "$out" | grep -E "VIOLATION|UNDECIDED|CHECKER-ERROR|not discharged" | head -6
done
git -C /repo checkout -q -- .
git -C /repo status --short | grep -v cbi.log
