"""
Contracts for C15 -- each physical file is parsed and counted once
(codebasin/finder.py: ParserState).  Also carries the get_setmap contract
shared with C06/C10/C14.
"""
import z3

from pyvc.contract import contract, lemma, LoopSpec, ObjSpec, CellOf
from pyvc.values import *  # noqa
from pyvc.state import Exc, HeapObj
from pyvc import bigop, ops
from pyvc import fsmodel as F
from pyvc.fsmodel import PATH
from pyvc.speclib import P, PSet

LANG = Atom("Lang")
OLANG = Opt(LANG)
NODE = Abstract("Node", attrs={"num_lines": INT, "isa:CodeNode": BOOL})
TREE = Abstract("SourceTree", methods={"walk": ("pure", SeqOf(NODE))})
OTREE = Opt(TREE)
ASSOCV = TotalMapOf(NODE, PSet)
OASSOC = Opt(ASSOCV)

PSTATE = ObjSpec("ParserState", {
    "trees": CellOf(MapOf(PATH, TREE)),
    "maps": CellOf(MapOf(PATH, ASSOCV)),
    "langs": CellOf(MapOf(PATH, OLANG)),
    "summarize_only": BOOL,
    "_path_cache": CellOf(MapOf(PATH, PATH)),
})

parse = z3.Function("parse_file", PATH.sort(), OLANG.sort(), z3.BoolSort(), TREE.sort())
lang_of = z3.Function("FileLanguage.get_language", PATH.sort(), OLANG.sort())


def cache_valid(cache):
    k = z3.Const("cv!k", PATH.sort())
    return z3.ForAll([k], z3.Implies(cache.dom[k], cache.valarr[k] == F.realpath(k)))


def state_inv(s):
    """one entry per physical file: keys are canonical and the three tables agree"""
    k = z3.Const("si!k", PATH.sort())
    return [("path-cache-valid", cache_valid(s._path_cache)),
            ("keys-are-real-paths", z3.ForAll([k], z3.Implies(s.trees.dom[k], F.realpath(k) == k))),
            ("trees/maps/langs-have-the-same-keys", z3.And(s.trees.dom == s.maps.dom, s.trees.dom == s.langs.dom))]


# ------------------------------------------------------------ _get_realpath
r = contract("codebasin.finder:ParserState._get_realpath", props=["C15"])
r.param("self", PSTATE).param("path", PATH).result(PATH)
r.modifies = ["self._path_cache"]


@r.requires
def _(A):
    F.install_axioms()
    return [("path-cache-valid", cache_valid(A.self._path_cache))]


@r.ensures
def _(A, R):
    return [("result==realpath(path)", R.result.t == F.realpath(A.path.t)),
            ("path-cache-valid-afterwards", cache_valid(R.new.self._path_cache))]


# ------------------------------------------------------------ insert_file
def _parse_file(ex, st, env, node):
    """FileParser(fn).parse_file(summarize_only=, language=): assumed to be a
    function of the (static) file, the language and the flag; every call is counted."""
    st.ghost["parses"] = st.ghost.get("parses", 0) + 1
    me = env["self"]
    fn = st.heap[me.oid].fields["_filename"]
    lang = ops.coerce(st, env["language"], OLANG)
    so = env["summarize_only"]
    st.ghost["parse_args"] = (fn, lang, so)
    return [(st, VAtom(TREE, parse(fn.t, lang.t, ops.truth(st, so))))]


def _file_parser_init(ex, st, pos, kw, node):
    # FileParser.__init__ stores os.path.abspath(filename); for a real path abspath is the identity (A4)
    o = st.alloc(HeapObj("inst", cls="FileParser", fields={"_filename": pos[0]}))
    return [(st, o)]


def _file_language(ex, st, pos, kw, node):
    o = st.alloc(HeapObj("inst", cls="FileLanguage", fields={"_filename": pos[0]}))
    return [(st, o)]


def _get_language(ex, st, env, node):
    me = env["self"]
    fn = st.heap[me.oid].fields["_filename"]
    return [(st, VOpt(OLANG, lang_of(fn.t)))]


i = contract("codebasin.finder:ParserState.insert_file", props=["C15", "C10"])
i.param("self", PSTATE).param("fn", PATH).param("language", OLANG)
i.modifies = ["self.trees", "self.maps", "self.langs", "self._path_cache"]
i.opaque = {"codebasin.file_parser:FileParser.parse_file": _parse_file,
            "class:FileParser": _file_parser_init,
            "class:FileLanguage": _file_language,
            "codebasin.language:FileLanguage.get_language": _get_language}


@i.requires
def _(A):
    F.install_axioms()
    return state_inv(A.self)


@i.ensures
def _(A, R):
    old, new = A.self, R.new.self
    rp = F.realpath(A.fn.t)
    k = z3.Const("if!k", PATH.sort())
    parses = R.st.ghost.get("parses", 0)
    present = old.trees.dom[rp]
    out = [(f"invariant:{l}", f) for l, f in state_inv(new)]
    out += [
        ("file-is-known-by-its-real-path-afterwards", new.trees.dom[rp]),
        ("already-parsed-file-is-not-parsed-again", z3.Implies(present, z3.BoolVal(parses == 0))),
        ("new-file-is-parsed-exactly-once", z3.Implies(z3.Not(present), z3.BoolVal(parses == 1))),
        ("other-entries-untouched",
         z3.ForAll([k], z3.Implies(z3.Or(k != rp, present),
                                   z3.And(new.trees.dom[k] == old.trees.dom[k],
                                          new.trees.valarr[k] == old.trees.valarr[k],
                                          new.maps.valarr[k] == old.maps.valarr[k],
                                          new.langs.valarr[k] == old.langs.valarr[k])))),
        # what the callers rely on (IncludeNode passes the includer's recorded language on, "irrespective of file
        # extension"; find() passes none for compiled files): a given language wins, else the file name decides
        ("new-file-records-the-given-language-else-the-one-its-name-selects",
         z3.Implies(z3.Not(present),
                    new.langs.valarr[rp] == z3.If(ops.truth(R.st, A.language), ops.coerce(R.st, A.language, OLANG).t, lang_of(rp)))),
        ("new-file-starts-with-an-empty-association",
         z3.Implies(z3.Not(present), new.maps.valarr[rp] == z3.K(NODE.sort(), z3.K(P.sort(), z3.BoolVal(False))))),
    ]
    pa = R.st.ghost.get("parse_args")
    if pa is not None:
        fn, lang, so = pa
        out.append(("parsed-under-the-real-path-with-the-given-language",
                    z3.And(fn.t == rp, lang.t == ops.coerce(R.st, A.language, OLANG).t)))
    return out


# ------------------------------------------------------------ get_tree / get_map
t = contract("codebasin.finder:ParserState.get_tree", props=["C15"])
t.param("self", PSTATE).param("fn", PATH).result(OTREE)
t.modifies = ["self._path_cache"]


@t.requires
def _(A):
    F.install_axioms()
    return [("path-cache-valid", cache_valid(A.self._path_cache))]


@t.ensures
def _(A, R):
    rp = F.realpath(A.fn.t)
    res = ops.coerce(R.st, R.raw_result, OTREE)
    return [("tree-of-the-real-path-or-None",
             res.t == z3.If(A.self.trees.dom[rp], OTREE.sort().some(A.self.trees.valarr[rp]), OTREE.sort().none)),
            ("path-cache-valid-afterwards", cache_valid(R.new.self._path_cache))]


m = contract("codebasin.finder:ParserState.get_map", props=["C15"])
m.param("self", PSTATE).param("fn", PATH).result(OASSOC)
m.modifies = ["self._path_cache"]


@m.requires
def _(A):
    F.install_axioms()
    return [("path-cache-valid", cache_valid(A.self._path_cache))]


@m.ensures
def _(A, R):
    rp = F.realpath(A.fn.t)
    res = ops.coerce(R.st, R.raw_result, OASSOC)
    return [("map-of-the-real-path-or-None",
             res.t == z3.If(A.self.maps.dom[rp], OASSOC.sort().some(A.self.maps.valarr[rp]), OASSOC.sort().none)),
            ("path-cache-valid-afterwards", cache_valid(R.new.self._path_cache))]


UNITS = [
    "codebasin.finder:ParserState._get_realpath",
    "codebasin.finder:ParserState.insert_file",
    "codebasin.finder:ParserState.get_tree",
    "codebasin.finder:ParserState.get_map",
]
ASSUMPTIONS = [
    "A4 static file system: os.path.realpath is a pure idempotent function of the name",
    "FileParser(fn).parse_file is a function of (file, language, summarize_only) (assumed contract of the callee, counted per call)",
    "FileParser.__init__'s abspath is the identity on real paths",
]
NOT_COVERED = []
EXPLANATION = ("ParserState keeps one tree/association/language entry per physical file (keys are real paths), never parses "
               "a file twice, and every lookup goes through the real path.")
