"""native/systarget.py -- generic bounded system-level target: real finder.find on a
seeded random model code base vs. the reference preprocessor (per platform,
per line).  Used by several properties with different generator features."""
import random

from native import gen, refpp, sysrun


class SysTarget:
    proved = False

    def __init__(self, name, features, quick_n, thorough_n, role=None):
        self.name, self.features, self.quick_n, self.thorough_n = name, tuple(features), quick_n, thorough_n
        self.role = role or ("bounded stand-in: real analysis of seeded random model code bases vs the reference "
                             "preprocessor (per platform, per line); not counted as proved")
        self.sb = None

    def bound(self, tier):
        n = self.quick_n if tier == "quick" else self.thorough_n
        return f"{n} seeded random model code bases with features {list(self.features)} (valid programs only)"

    def inputs(self, tier, seed):
        n = self.quick_n if tier == "quick" else self.thorough_n
        for i in range(n):
            yield {"seed": seed * 1000003 + i}

    def nontrivial(self, inp):
        # called by the harness after check(): a case is non-trivial iff it was valid (not skipped)
        return getattr(self, "_last_valid", False)

    def case(self, inp):
        return gen.random_case(random.Random(inp["seed"]), self.features)

    def sandbox(self):
        if self.sb is None:
            self.sb = sysrun.Sandbox("cbi_" + self.name + "_")
        return self.sb

    def expected(self, sb, case, cfg):
        try:
            return sysrun.ref_used(sb, case["files"], cfg)
        except refpp.Invalid:
            return None

    def check(self, inp):
        self._last_valid = False
        case = self.case(inp)
        sb = self.sandbox()
        sb.write(case["files"], case["links"])
        cfg = gen.configuration(sb, case)
        exp = self.expected(sb, case, cfg)
        if exp is None:
            return None                    # a conforming preprocessor rejects the program: outside the quantifier
        if "missing" not in self.features and any(ev[0].startswith("missing") for p in exp for ev in exp[p][1]):
            return None
        self._last_valid = True
        try:
            _, state = sysrun.real_find(sb.root, cfg, [sb.abs(case["codebase"])], case["excludes"])
            used = sysrun.real_used(state)
        except Exception as e:      # noqa: BLE001
            return {"expected": "analysis succeeds", "observed": f"raised {type(e).__name__}: {e}",
                    "klass": self.name + ":analysis-fails"}
        return self.compare(sb, case, cfg, exp, used, state)

    def compare(self, sb, case, cfg, exp, used, state):
        import os
        for p in cfg:
            want = {(os.path.realpath(f), ln) for f, ln in exp[p][0]}
            got = used.get(p, set())
            if want != got:
                missing = sysrun.rel_used(sb, want - got)[:6]
                extra = sysrun.rel_used(sb, got - want)[:6]
                return {"expected": f"platform {p}: lines missing from the analysis {missing}",
                        "observed": f"lines attributed but not used {extra}", "klass": self.name + ":wrong-lines",
                        "entries": case["platforms"][p]}
        return None

    def encode(self, inp):
        case = self.case(inp)
        return {"seed": inp["seed"], "features": list(self.features),
                "files": {k: [refpp.render_line(x) for x in v] for k, v in case["files"].items()},
                "links": case["links"], "platforms": case["platforms"], "excludes": case["excludes"]}

    def decode(self, j):
        return {"seed": j["seed"]}
