"""
native/refpp.py -- an independent reference model of the C preprocessor
fragment the properties quantify over (ISO C 6.10.1-6.10.3 for object-like
macros, GCC include search order), written from the standard and the property
statements, NOT from the code of /repo.  Trusted spec (A9); sampled against
`gcc -E` in the thorough tier of C01.

A program is a dict  relative path -> list of Line.  Every Line is one
physical line (no comments, no continuations), so line numbers are positions.
"""
import os

# ---------------------------------------------------------------- expressions
# ("num", int) ("id", name) ("defined", name) ("not", e) ("and", a, b) ("or", a, b)
# ("eq", a, b) ("ne", a, b) ("lt", a, b) ("ge", a, b) ("add", a, b) ("paren", e)


def render_expr(e):
    k = e[0]
    if k == "num":
        return str(e[1])
    if k == "bad":
        return "("                  # a syntax error wherever it is evaluated
    if k == "id":
        return e[1]
    if k == "defined":
        return f"defined({e[1]})"
    if k == "minus1":
        return f"{e[1]} -1"         # valid (and different) whether the macro is undefined, a number, or defined empty
    if k == "not":
        return "!" + render_expr(e[1])
    if k == "paren":
        return "(" + render_expr(e[1]) + ")"
    op = {"and": "&&", "or": "||", "eq": "==", "ne": "!=", "lt": "<", "ge": ">=", "add": "+"}[k]
    return f"{render_expr(e[1])} {op} {render_expr(e[2])}"


class Invalid(Exception):
    """the program is not accepted by a conforming preprocessor without diagnostics"""


def eval_expr(e, macros, depth=0):
    k = e[0]
    if k == "num":
        return e[1]
    if k == "bad":
        raise Invalid("syntax error in #if expression")
    if k == "id":
        return macro_value(e[1], macros, depth)
    if k == "defined":
        return 1 if e[1] in macros else 0
    if k == "minus1":
        if macros.get(e[1]) == "":
            return -1               # `#if -1` : the macro's replacement list is empty
        return macro_value(e[1], macros, depth) - 1
    if k == "not":
        return 0 if eval_expr(e[1], macros) else 1
    if k == "paren":
        return eval_expr(e[1], macros)
    if k == "and":
        return 1 if (eval_expr(e[1], macros) and eval_expr(e[2], macros)) else 0
    if k == "or":
        return 1 if (eval_expr(e[1], macros) or eval_expr(e[2], macros)) else 0
    a, b = eval_expr(e[1], macros), eval_expr(e[2], macros)
    return {"eq": int(a == b), "ne": int(a != b), "lt": int(a < b), "ge": int(a >= b), "add": a + b}[k]


def macro_value(name, macros, depth=0):
    """value of an identifier in #if: expand object-like macros (values are integer
    literals, another identifier, or empty); anything left counts as 0"""
    seen = set()
    while name in macros and name not in seen:
        seen.add(name)
        v = macros[name]
        if v == "":
            raise Invalid("#if operand expands to nothing")
        try:
            return int(v, 0)
        except ValueError:
            name = v
    return 0


# ---------------------------------------------------------------------- lines
def L(kind, **kw):
    d = {"kind": kind}
    d.update(kw)
    return d


def render_line(ln):
    k = ln["kind"]
    if k == "code":
        return ln.get("text", "int v;")
    if k == "blank":
        return ""
    if k == "comment":
        return "/* " + ln.get("text", "note") + " */"
    if k == "mlc_open":          # three physical lines, one logical line: code, comment text only, code
        return "int before; /* a comment that begins after code,"
    if k == "mlc_mid":
        return "   runs over a line of its own"
    if k == "mlc_close":
        return "   and ends before code */ int after;"
    if k == "if":
        return "#if " + render_expr(ln["expr"])
    if k == "elif":
        return "#elif " + render_expr(ln["expr"])
    if k == "ifdef":
        return "#ifdef " + ln["name"]
    if k == "ifndef":
        return "#ifndef " + ln["name"]
    if k == "else":
        return "#else"
    if k == "endif":
        return "#endif"
    if k == "define":
        v = ln.get("value", "")
        return f"#define {ln['name']}" + (f" {v}" if v != "" else "")
    if k == "undef":
        return "#undef " + ln["name"]
    if k == "include":
        return "#include " + (f"<{ln['name']}>" if ln["angle"] else f'"{ln["name"]}"')
    if k == "include_macro":
        return "#include " + ln["macro"]
    if k == "pragma_once":
        return "#pragma once"
    if k == "unknown":
        return ln["text"]
    raise ValueError(k)


def render_file(lines):
    return "".join(render_line(x) + "\n" for x in lines)


def counted(ln):
    return ln["kind"] not in ("blank", "comment", "mlc_mid")


# ------------------------------------------------------------------ reference
class Ref:
    """One translation unit processed by the reference preprocessor."""

    def __init__(self, files, exists, include_dirs, defines, max_depth=40, canon=os.path.normpath):
        self.canon = canon                  # how a spelled path names a physical file
        self.files = files                  # abs path -> list of Line (files the model knows the text of)
        self.exists = exists                # callable abs path -> bool (regular file)
        self.dirs = list(include_dirs)
        self.macros = dict(defines)         # name -> value string ('' = empty)
        self.once = set()
        self.used = set()                   # (abs path, 1-based line)
        self.events = []                    # ("missing-include", file, line, name, angle) / ("unknown-directive", file, line, text)
        self.max_depth = max_depth

    def resolve(self, name, this_dir, angle):
        for d in ([] if angle else [this_dir]) + self.dirs:
            c = self.canon(os.path.join(d, name))
            if self.exists(c):
                return c
        return None

    def process(self, path, depth=0):
        if depth > self.max_depth:
            raise Invalid("include nesting too deep")
        lines = self.files[path]
        stack = []          # [parent_live, taken, live]
        for no, ln in enumerate(lines, start=1):
            k = ln["kind"]
            live = all(e[2] for e in stack)
            if k in ("if", "ifdef", "ifndef"):
                if live:
                    if counted(ln):
                        self.used.add((path, no))
                    if k == "if":
                        c = bool(eval_expr(ln["expr"], self.macros))
                    elif k == "ifdef":
                        c = ln["name"] in self.macros
                    else:
                        c = ln["name"] not in self.macros
                    stack.append([True, c, c])
                else:
                    stack.append([False, False, False])
            elif k in ("elif", "else"):
                if not stack:
                    raise Invalid("#elif/#else without #if")
                e = stack[-1]
                if e[0]:
                    self.used.add((path, no))
                    if e[1]:
                        e[2] = False
                    else:
                        c = True if k == "else" else bool(eval_expr(ln["expr"], self.macros))
                        e[1] = e[2] = c
            elif k == "endif":
                if not stack:
                    raise Invalid("#endif without #if")
                e = stack.pop()
                if e[0]:
                    self.used.add((path, no))
            else:
                if not live:
                    continue
                if counted(ln):
                    self.used.add((path, no))
                if k == "define":
                    v = ln.get("value", "")
                    if ln["name"] in self.macros and self.macros[ln["name"]] != v:
                        raise Invalid("incompatible macro redefinition")
                    self.macros[ln["name"]] = v
                elif k == "undef":
                    self.macros.pop(ln["name"], None)
                elif k == "pragma_once":
                    self.once.add(path)
                elif k in ("include", "include_macro"):
                    if k == "include":
                        name, angle = ln["name"], ln["angle"]
                    else:
                        spec = self.macros.get(ln["macro"])
                        if not spec or spec[0] not in '"<':
                            raise Invalid("computed include does not expand to a header name")
                        name, angle = spec[1:-1], spec[0] == "<"
                    tgt = self.resolve(name, os.path.dirname(path), angle)
                    if tgt is None:
                        self.events.append(("missing-include", path, no, name, angle))
                    elif tgt not in self.once:
                        if tgt not in self.files:
                            raise Invalid("include of a file outside the model")
                        self.process(tgt, depth + 1)
                elif k == "unknown":
                    self.events.append(("unknown-directive", path, no, ln["text"]))
        if stack:
            raise Invalid("unterminated conditional")


def run_tu(files, exists, entry_file, include_dirs, defines, forced=(), canon=os.path.normpath):
    """-> Ref after processing the forced includes (in order) and then the file"""
    r = Ref(files, exists, include_dirs, defines, canon=canon)
    entry_file = canon(entry_file)
    for inc in forced:
        tgt = r.resolve(inc, os.path.dirname(entry_file), False)
        if tgt is not None and tgt in files:
            r.process(tgt)
        elif tgt is None:
            r.events.append(("missing-forced", entry_file, inc))      # gcc: fatal error; the analysis: one warning
    r.process(entry_file)
    return r


def parse_define(d):
    """'-D' value 'NAME' | 'NAME=' | 'NAME=value' -> (name, value string)"""
    if "=" in d:
        n, v = d.split("=", 1)
        return n, v
    return d, "1"
