#!/bin/bash
# tools/try_patch.sh <seeded id> <prop>... : run checks against a scratch copy of /repo with the seeded patch applied (CBI_REPO)
id=$1; shift
S=$(mktemp -d /tmp/scr_XXXX)
git -C /repo archive HEAD codebasin | tar -x -C $S
( cd $S && patch -p1 -s < /verif/seeded/$id/patch.diff ) || { echo "patch failed"; rm -rf $S; exit 9; }
for p in "$@"; do
  out=$(cd /verif && CBI_REPO=$S timeout 1200 ./check $p --tier quick 2>&1); rc=$?
  echo "$id check $p exit=$rc"; echo "$out" | grep -E "VIOLATION|UNDECIDED|CHECKER-ERROR" | head -4
done
rm -rf $S
