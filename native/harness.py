"""
native/harness.py -- runs under /venv/bin/python against the real /repo.

For every target function of a property it evaluates the *same contract* the
verifier proves, concretely (exact rationals where floats occur), on every
input up to a stated small bound.  Roles:
  * refuter: when an obligation is not discharged, the first failing input
    found here is the counterexample replayed in the VIOLATION;
  * engine cross-check (A12): if everything is discharged but an input fails
    here, the verifier (or the contract) is wrong -> checker error, exit 3;
  * bounded stand-in for functions outside the verifier's reach (labelled).
Output: one JSON line on stdout.
"""
import argparse
import importlib
import json
import os
import sys
import time
import warnings

warnings.simplefilter("ignore")
import logging  # noqa: E402

logging.disable(logging.CRITICAL)

HERE = os.path.dirname(os.path.abspath(__file__))
sys.path.insert(0, os.path.dirname(HERE))


def find_target(mod, unit):
    """unit keys `mod:func#case` / `mod:func@loopN` fall back to the function's own target"""
    import re
    return (mod.TARGETS.get(unit) or mod.TARGETS.get(unit.split("#")[0])
            or mod.TARGETS.get(re.sub(r"@loop\d+", "", unit.split("#")[0])))


def main():
    ap = argparse.ArgumentParser()
    ap.add_argument("prop")
    ap.add_argument("--tier", default="quick")
    ap.add_argument("--seed", type=int, default=0)
    ap.add_argument("--replay")
    ap.add_argument("--only")
    ap.add_argument("--models")       # {unit: [{"obligation":..., "model": {...}}]}: solver counterexamples to replay
    args = ap.parse_args()
    repo = os.environ.get("CBI_REPO", "/repo")
    sys.path.insert(0, repo)
    import codebasin
    real = os.path.realpath(os.path.dirname(codebasin.__file__))
    if real != os.path.realpath(os.path.join(repo, "codebasin")):
        print(json.dumps({"error": f"codebasin imported from {real}, not {repo}"}))
        sys.exit(3)
    mod = importlib.import_module(f"native.{args.prop}")
    if args.replay:
        with open(args.replay) as fh:
            rep = json.load(fh)
        tgt = find_target(mod, rep["function"])
        if tgt is None:
            print(json.dumps({"error": f"no native target for {rep['function']}"}))
            sys.exit(3)
        inp = tgt.decode(rep["input"]) if hasattr(tgt, "decode") else rep["input"]
        f = tgt.check(inp)
        print(json.dumps({"replay": {"function": rep["function"], "input": rep["input"],
                                     "fails": f is not None, "detail": f}}, default=str))
        return
    out = {"targets": {}}
    for key, tgt in mod.TARGETS.items():
        if args.only and args.only not in key:
            continue
        t0 = time.time()
        n = 0
        nontrivial = 0
        failures = []
        seen_classes = set()
        for inp in tgt.inputs(args.tier, args.seed):
            n += 1
            f = tgt.check(inp)
            if getattr(tgt, "nontrivial", None) and tgt.nontrivial(inp):
                nontrivial += 1          # measured after the check (targets may mark skipped cases trivial)
            if f is not None:
                kl = f.get("klass")
                if kl in seen_classes:
                    continue
                seen_classes.add(kl)
                f["input"] = tgt.encode(inp) if hasattr(tgt, "encode") else inp
                failures.append(f)
                if len(failures) >= 20:
                    break
        out["targets"][key] = {"evaluations": n, "distinct_nontrivial": nontrivial, "failures": failures,
                               "bound": tgt.bound(args.tier), "seconds": round(time.time() - t0, 2),
                               "role": getattr(tgt, "role", "refuter + engine cross-check (bounded, not counted as proved)"),
                               "proved": getattr(tgt, "proved", True)}
    if args.models:
        with open(args.models) as fh:
            models = json.load(fh)
        out["model_replays"] = []
        for unit, lst in models.items():
            tgt = find_target(mod, unit)
            if tgt is None or not hasattr(tgt, "from_model"):
                continue
            for item in lst[:8]:
                try:
                    inp = tgt.from_model(unit, item["model"])
                    if inp is None:
                        continue
                    f = tgt.check(inp)
                except Exception as e:      # noqa: BLE001  (a model that cannot be decoded is no verdict)
                    out["model_replays"].append({"unit": unit, "obligation": item["obligation"], "error": str(e)})
                    continue
                enc = tgt.encode(inp) if hasattr(tgt, "encode") else inp
                if f is not None:
                    f["input"] = enc
                out["model_replays"].append({"unit": unit, "obligation": item["obligation"], "input": enc,
                                             "fails": f is not None, "detail": f})
    print(json.dumps(out, default=str))


if __name__ == "__main__":
    main()
