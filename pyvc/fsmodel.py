"""
pyvc.fsmodel -- assumed contracts (A4, A5) for os.path / pathlib / hashlib /
filecmp over an abstract, *static* file system.

Path strings and pathlib.Path objects are one uninterpreted sort `Path`
(Path(s) and str(p) are the identity: the two spell the same name).  The
path functions are uninterpreted with the few POSIX facts the proofs need;
file-system predicates are uninterpreted functions of the name.
"""
import z3

from .values import *  # noqa
from .state import *   # noqa
from . import ops, bigop
from .stubs import stub, STUBS, ASSUMED

PATH = Atom("Path")
DIGEST = Atom("Digest")
CONTENT = Atom("Content")

_P = PATH.sort()
join = z3.Function("path_join", _P, _P, _P)
abspath = z3.Function("path_abspath", _P, _P)
realpath = z3.Function("path_realpath", _P, _P)
dirname = z3.Function("path_dirname", _P, _P)
basename = z3.Function("path_basename", _P, _P)
isabs = z3.Function("path_isabs", _P, z3.BoolSort())
isfile = z3.Function("fs_isfile", _P, z3.BoolSort())
exists = z3.Function("fs_exists", _P, z3.BoolSort())
is_dir = z3.Function("fs_isdir", _P, z3.BoolSort())
is_symlink = z3.Function("fs_islink", _P, z3.BoolSort())
digest = z3.Function("fs_sha512", _P, DIGEST.sort())
content = z3.Function("fs_content", _P, CONTENT.sort())
digest_of = z3.Function("sha512_of", CONTENT.sort(), DIGEST.sort())

_installed = False


def install_axioms():
    global _installed
    if _installed and any(o == "path_realpath" for o, _, _ in bigop._axioms):
        return
    _installed = True
    p, q = z3.Consts("fs!p fs!q", _P)
    A = bigop.add_axiom
    A("path_realpath", z3.ForAll([p], realpath(realpath(p)) == realpath(p), patterns=[realpath(realpath(p))]),
      "A4 realpath is idempotent")
    A("path_abspath", z3.ForAll([p], abspath(abspath(p)) == abspath(p), patterns=[abspath(abspath(p))]),
      "A4 abspath is idempotent")
    A("path_abspath", z3.ForAll([p], isabs(abspath(p)), patterns=[abspath(p)]), "A4 abspath returns an absolute path")
    A("path_join", z3.ForAll([p, q], z3.Implies(isabs(q), join(p, q) == q), patterns=[join(p, q)]),
      "A4 join(p, q) == q for absolute q")
    A("fs_isfile", z3.ForAll([p], z3.Implies(isfile(p), z3.And(exists(p), z3.Not(is_dir(p)))), patterns=[isfile(p)]),
      "A4 a regular file exists and is not a directory")
    A("fs_sha512", z3.ForAll([p], digest(p) == digest_of(content(p)), patterns=[digest(p)]),
      "A5 the digest of a file is a function of its content")


class VHandle(V):
    """opaque library object carrying a payload (open file, hash object ...)"""

    def __init__(self, tag, payload):
        self.tag, self.payload = tag, payload
        self.kind = None

    def __repr__(self):
        return f"VHandle({self.tag})"


def _path(st, v):
    v = ops.deref(st, v)
    if isinstance(v, VAtom) and v.kind == PATH:
        return v
    if isinstance(v, VOpt) and v.kind.inner == PATH:
        return v.get()
    raise Unsupported(f"path argument {v!r}")


def path_str(v):
    return v


def _arity(pos, kw, n, node, name, kwok=()):
    if len(pos) != n or any(k not in kwok for k in kw):
        return Exc("TypeError", node.lineno, f"{name}() takes {n} positional argument(s) but {len(pos)} were given")
    return None


def _fn1(name, f, why):
    @stub(name, assumed=why)
    def h(ex, st, pos, kw, node, star):
        install_axioms()
        e = _arity(pos, kw, 1, node, name)
        if e:
            return [(st, e)]
        return [(st, VAtom(PATH, f(_path(st, pos[0]).t)))]
    return h


def _pred1(name, f, why):
    @stub(name, assumed=why)
    def h(ex, st, pos, kw, node, star):
        install_axioms()
        e = _arity(pos, kw, 1, node, name)
        if e:
            return [(st, e)]
        return [(st, VBool(f(_path(st, pos[0]).t)))]
    return h


_fn1("os.path.abspath", abspath, "A4 os.path.abspath: pure function of the name (cwd fixed)")
_fn1("os.path.realpath", realpath, "A4 os.path.realpath: pure, idempotent function of the name on a static file system")
_fn1("os.path.dirname", dirname, "A4 os.path.dirname: pure function of the name")
_fn1("os.path.basename", basename, "A4 os.path.basename: pure function of the name")
_pred1("os.path.isabs", isabs, "A4 os.path.isabs: predicate on the name")
_pred1("os.path.isfile", isfile, "A4 os.path.isfile: predicate of the static file system")
_pred1("os.path.exists", exists, "A4 os.path.exists: predicate of the static file system")


@stub("os.path.join", assumed="A4 os.path.join: left fold of a binary pure function; join(p,q)==q for absolute q")
def _join(ex, st, pos, kw, node, star):
    install_axioms()
    if len(pos) < 1 or kw:
        return [(st, Exc("TypeError", node.lineno, "join() missing argument"))]
    t = _path(st, pos[0]).t
    for a in pos[1:]:
        t = join(t, _path(st, a).t)
    return [(st, VAtom(PATH, t))]


@stub("pathlib.Path", assumed="A4 Path(s) denotes the same name as s")
def _Path(ex, st, pos, kw, node, star):
    install_axioms()
    e = _arity(pos, kw, 1, node, "Path")
    if e:
        return [(st, e)]
    return [(st, _path(st, pos[0]))]


def _path_method(meth, f, kind):
    def h(ex, st, pos, kw, node, star):
        install_axioms()
        v = _path(st, pos[0])
        if len(pos) != 1:
            return [(st, Exc("TypeError", node.lineno))]
        r = f(v.t)
        return [(st, VBool(r) if kind == "b" else VAtom(PATH, r))]
    STUBS["method:" + meth] = h
    ASSUMED["method:" + meth] = f"A4 Path.{meth}: predicate/function of the static file system"


_path_method("is_symlink", is_symlink, "b")
_path_method("is_dir", is_dir, "b")
_path_method("exists", exists, "b")
_path_method("resolve", realpath, "p")


@stub("open", assumed="A4/A5 open(path, 'rb') yields the file's content; I/O errors are not modelled")
def _open(ex, st, pos, kw, node, star):
    install_axioms()
    return [(st, VHandle("file", _path(st, pos[0])))]


@stub("hashlib.file_digest", assumed="A5 hashlib.file_digest(f, 'sha512') is a function of the file's content")
def _file_digest(ex, st, pos, kw, node, star):
    f = pos[0]
    if not (isinstance(f, VHandle) and f.tag == "file"):
        raise Unsupported("file_digest of a non-file")
    algo = concrete_str(ops.deref(st, pos[1]).t) if len(pos) > 1 else None
    if algo != "sha512":
        raise Unsupported(f"file_digest with algorithm {algo!r} (stub covers sha512)")
    return [(st, VHandle("hash", f.payload))]


def _hexdigest(ex, st, pos, kw, node, star):
    h = pos[0]
    if not (isinstance(h, VHandle) and h.tag == "hash"):
        raise Unsupported("hexdigest of a non-hash")
    return [(st, VAtom(DIGEST, digest(h.payload.t)))]


STUBS["method:hexdigest"] = _hexdigest
ASSUMED["method:hexdigest"] = "A5 hexdigest of sha512 is injective on digests"


@stub("filecmp.cmp", assumed="A5 filecmp.cmp(a, b, shallow=False) <=> the two files have equal content")
def _filecmp(ex, st, pos, kw, node, star):
    install_axioms()
    if len(pos) < 2:
        return [(st, Exc("TypeError", node.lineno))]
    a, b = _path(st, pos[0]), _path(st, pos[1])
    shallow = kw.get("shallow", pos[2] if len(pos) > 2 else VBool(True))
    sh = concrete_bool(ops.truth(st, shallow))
    if sh is False:
        return [(st, VBool(content(a.t) == content(b.t)))]
    # shallow comparison consults os.stat signatures: unconstrained result
    return [(st, BOOL.fresh(ex.ctx, "shallow_cmp"))]


# ---- pathlib relations, rglob, suffix, pathspec (A4 / A6) ------------------------------
below = z3.Function("path_is_relative_to", _P, _P, z3.BoolSort())
relto = z3.Function("path_relative_to", _P, _P, _P)
rglob_all = z3.Function("fs_rglob_all", _P, z3.ArraySort(_P, z3.BoolSort()))
suffix = z3.Function("path_suffix", _P, z3.StringSort())
PATTERNS = Atom("Patterns")
ignored = z3.Function("gitignore_match", PATTERNS.sort(), _P, z3.BoolSort())


def _m_is_relative_to(ex, st, pos, kw, node, star):
    if len(pos) != 2:
        return [(st, Exc("TypeError", node.lineno))]
    return [(st, VBool(below(_path(st, pos[0]).t, _path(st, pos[1]).t)))]


def _m_relative_to(ex, st, pos, kw, node, star):
    if len(pos) != 2:
        return [(st, Exc("TypeError", node.lineno))]
    a, b = _path(st, pos[0]).t, _path(st, pos[1]).t
    return ex.guarded(st, [(below(a, b), VAtom(PATH, relto(a, b))), (z3.Not(below(a, b)), Exc("ValueError", node.lineno))])


def _m_rglob(ex, st, pos, kw, node, star):
    pat = concrete_str(ops.deref(st, pos[1]).t) if len(pos) == 2 else None
    if pat != "*":
        raise Unsupported(f"rglob({pat!r}): the stub covers '*' only")
    s = VSet(PATH, rglob_all(_path(st, pos[0]).t))
    st.assume(bigop.fin(s.t))
    return [(st, s)]


def _attr_suffix(v):
    return VStr(suffix(v.t))


STUBS["method:is_relative_to"] = _m_is_relative_to
STUBS["method:relative_to"] = _m_relative_to
STUBS["method:rglob"] = _m_rglob
ASSUMED["method:is_relative_to"] = "A4 Path.is_relative_to: a relation on names"
ASSUMED["method:relative_to"] = "A4 Path.relative_to: defined (no ValueError) exactly when is_relative_to holds"
ASSUMED["method:rglob"] = "A4 Path(d).rglob('*') enumerates a finite set of paths below d (every entry, without descending into symlinked directories)"


@stub("pathspec.GitIgnoreSpec.from_lines", assumed="A6 pathspec: GitIgnoreSpec.from_lines(patterns).match_file(rel) is a function of (patterns, rel); its git conformance is not verified")
def _from_lines(ex, st, pos, kw, node, star):
    v = ops.deref(st, pos[0])
    if not (isinstance(v, VAtom) and v.kind == PATTERNS):
        raise Unsupported("GitIgnoreSpec.from_lines of a non-pattern-list")
    return [(st, VHandle("gitignore", v))]


def _m_match_file(ex, st, pos, kw, node, star):
    h = pos[0]
    if not (isinstance(h, VHandle) and h.tag == "gitignore"):
        raise Unsupported("match_file on a non-spec")
    return [(st, VBool(ignored(h.payload.t, _path(st, pos[1]).t)))]


STUBS["method:match_file"] = _m_match_file
ASSUMED["method:match_file"] = "A6 pathspec match_file"
