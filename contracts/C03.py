"""
C03 -- macro definition and expansion conform to the C standard.

No contract within reach expresses "the expanded token sequence equals the one
a conforming preprocessor produces" for MacroExpander.expand (its specification
is Prosser's algorithm), so the deciding part of this check is BOUNDED
(native/C03.py, oracle gcc -E) and the level claimed is `other`.
Discharged here: the macro table contracts shared with C01 (first definition
wins, #undef removes, lookups read the table) and syntactic obligations tying
the -D path to the #define path.
"""
import ast

import contracts.C01 as C01     # noqa: F401

LEVEL = "other"
UNITS = ["codebasin.platform:Platform.define", "codebasin.platform:Platform.undefine",
         "codebasin.platform:Platform.get_macro", "codebasin.platform:Platform.is_defined"]


def extra_obligations(index, tier):
    out = []
    key = "codebasin.preprocessor:macro_from_definition_string"
    s = "".join(ast.unparse(index.func(key).node).split())
    d = "".join(ast.unparse(index.func("codebasin.preprocessor:DirectiveParser.define").node).split())
    out.append(("-D and #define parse the macro head with the same function (macro_definition)",
                "parser.macro_definition()" in s and "self.macro_definition()" in d, "", key, "pattern"))
    out.append(("-D builds the macro with make_macro(identifier, args, expansion) like DefineNode",
                "returnmake_macro(identifier,args,expansion)" in s and
                "make_macro(self.identifier,self.args,self.value)" in "".join(ast.unparse(index.func("codebasin.preprocessor:DefineNode.evaluate_for_platform").node).split()),
                "", key, "pattern"))
    out.append(("-DNAME without a value defines NAME as 1", "NumericalConstant('Unknown',None,False,'1')" in s, "", key, "pattern"))
    out.append(("-DNAME=value takes everything after the first = as the replacement", "string.partition('=')" in s and "expansion=parser.tokens[parser.pos:]" in s, "", key, "pattern"))
    e = "".join(ast.unparse(index.func("codebasin.preprocessor:MacroExpander.overflow_check").node).split())
    out.append(("expansion has a depth backstop (termination)", "raiseMacroExpandOverflow" in e or "MacroExpandOverflow" in e, "",
                "codebasin.preprocessor:MacroExpander.overflow_check", "pattern"))
    return out


ASSUMPTIONS = ["A9 gcc -E -P -std=c11 is the conforming preprocessor used as oracle; programs it diagnoses are outside the quantifier"]
NOT_COVERED = ["an unbounded statement about MacroExpander.expand / MacroFunction.replace: not attempted (DESIGN 6)"]
EXPLANATION = ("Bounded: seeded random macro tables (object-like, function-like with up to 2 parameters + variadic, # and ##, nested, "
               "parenthesised and empty arguments, direct / mutual / argument-borne recursion) and invocations are expanded by the real "
               "MacroExpander and by gcc -E; both outputs are re-lexed and compared token for token; -D forms are compared with the "
               "corresponding #define. Two recorded deviations.")
