"""
Contracts for C13 -- compilation-database entries resolve to the right files
and directories (codebasin/config.py: load_database; CompileCommand.is_supported).

Spec (from the statement): with Dir(e) = e.directory if absolute, else
abspath(join(root, e.directory)) (root when absent), the analysed file is
abspath(join(Dir(e), e.file)) and every -I value p becomes
abspath(join(Dir(e), p)) -- what a compiler started in Dir(e) opens.  An
entry is emitted iff it is supported and its file exists; every skipped entry
produces one warning; the loop never raises and later entries are unaffected.
"""
import z3

from pyvc.contract import contract, lemma, LoopSpec, ObjSpec, CellOf
from pyvc.values import *  # noqa
from pyvc.state import Exc, HeapObj
from pyvc import bigop, ops
from pyvc.bigop import PrefixSum
from pyvc import fsmodel as F
from pyvc.fsmodel import PATH
from pyvc.stubs import LOGREC

ARG = PATH                       # command-line words and -I values are path-like strings
NAME = Atom("PassName")
CONFIG = Abstract("PreprocessorConfiguration", attrs={
    "defines": SeqOf(ARG), "include_paths": SeqOf(PATH), "include_files": SeqOf(ARG), "pass_name": NAME})
CMD = Abstract("CompileCommand", attrs={"directory": Opt(PATH), "filename": PATH, "arguments": SeqOf(ARG)})
_supported = z3.Function("CompileCommand.is_supported()", CMD.sort(), z3.BoolSort())
CMD.methods["is_supported"] = ("pure", BOOL, lambda recv, r: [
    # CompileCommand.is_supported's own postcondition (proved below): supported commands are non-empty
    z3.Implies(r.t, CMD.attr(recv, "arguments").n > 0)])
ENTRYREC = TupleKey("dbentry", [("file", PATH), ("include_paths", SeqOf(PATH)), ("defines", SeqOf(ARG)),
                                ("include_files", SeqOf(ARG)), ("pass_name", NAME)])
_db = z3.Function("CompilationDatabase.from_file", PATH.sort(), SeqOf(CMD).sort())
_cfgs = z3.Function("ArgumentParser.parse_args", PATH.sort(), SeqOf(ARG).sort(), SeqOf(CONFIG).sort())


def _from_file(ex, st, env, node):
    v = SeqOf(CMD).wrap(_db(ops.deref(st, env["filename"]).t))
    st.assume(v.n >= 0)
    return [(st, v)]


def _arg_parser(ex, st, pos, kw, node):
    if len(pos) != 1:
        return [(st, Exc("TypeError", node.lineno))]
    return [(st, st.alloc(HeapObj("inst", cls="ArgumentParser", fields={"name": pos[0]})))]


def _parse_args(ex, st, env, node):
    name = st.heap[env["self"].oid].fields["name"]
    argv = ops.deref(st, env["argv"])
    v = SeqOf(CONFIG).wrap(_cfgs(ops.deref(st, name).t, argv.t))
    st.assume(v.n >= 0)
    st.ghost["parse_argv"] = argv
    return [(st, v)]


def Dir(root, c):
    d = CMD.attr(c, "directory")
    dv = Opt(PATH).sort().get(d.t)
    return z3.If(d.is_none(), root, z3.If(F.isabs(dv), dv, F.abspath(F.join(root, dv))))


def File(root, c):
    return F.abspath(F.join(Dir(root, c), CMD.attr(c, "filename").t))


def emitted(root, c):
    return z3.And(_supported(c.t), F.exists(File(root, c)))


def cfgs_of(c):
    args = CMD.attr(c, "arguments")
    i = z3.Int("ca!i")
    tail = z3.Lambda([i], args.arr[i + 1])
    # the configurations the (opaque) argument parser returns for argv[1:] of this command
    return args, tail


_memo = {}


def Off():
    """Off(db, root, k) = number of entries produced by the first k commands"""
    if "off" not in _memo:
        def term(dbarr, root, dbpath_unused, k):
            c = VAtom(CMD, dbarr[k])
            return z3.If(emitted(root, c), ncfg(c), 0)
        _memo["off"] = PrefixSum("EntriesBefore", [("db", z3.ArraySort(z3.IntSort(), CMD.sort())), ("root", PATH.sort()),
                                                   ("x", PATH.sort())], term)
    return _memo["off"]


def cfgseq(c):
    """what the (opaque) ArgumentParser(basename(argv[0])).parse_args(argv[1:]) returns for command c"""
    args = CMD.attr(c, "arguments")
    return SeqOf(CONFIG).wrap(_cfgs(F.basename(args.arr[0]), args.tail_from(1).t))


def ncfg(c):
    return cfgseq(c).n


def _ncfg(ct):
    return cfgseq(VAtom(CMD, ct)).n


def _cfg_at(ct, j):
    return cfgseq(VAtom(CMD, ct)).arr[j]


def Skipped():
    if "sk" not in _memo:
        def term(dbarr, root, x, k):
            c = VAtom(CMD, dbarr[k])
            return z3.If(emitted(root, c), 0, 1)
        _memo["sk"] = PrefixSum("SkippedBefore", [("db", z3.ArraySort(z3.IntSort(), CMD.sort())), ("root", PATH.sort()),
                                                  ("x", PATH.sort())], term)
    return _memo["sk"]


def entry_is(rec, root, c, cfg):
    """the record is the database entry for configuration cfg of command c"""
    get = lambda n: ENTRYREC.field(rec, [x for x, _ in ENTRYREC.fields].index(n))      # noqa: E731
    ipaths = SeqOf(PATH).wrap(get("include_paths"))
    src = CONFIG.attr(cfg, "include_paths")
    i = z3.Int("ei!i")
    return z3.And(
        get("file") == File(root, c),
        ipaths.n == src.n,
        z3.ForAll([i], z3.Implies(z3.And(0 <= i, i < src.n),
                                  ipaths.arr[i] == F.abspath(F.join(Dir(root, c), src.arr[i])))),
        SeqOf(ARG).wrap(get("defines")).eq(CONFIG.attr(cfg, "defines")),
        SeqOf(ARG).wrap(get("include_files")).eq(CONFIG.attr(cfg, "include_files")),
        get("pass_name") == CONFIG.attr(cfg, "pass_name").t)


d = contract("codebasin.config:load_database", props=["C13", "C18"])
d.param("dbpath", PATH).param("rootdir", PATH)
d.local("configuration", SeqOf(ENTRYREC))
d.opaque = {"codebasin:CompilationDatabase.from_file": _from_file,
            "class:ArgumentParser": _arg_parser,
            "codebasin.config:ArgumentParser.parse_args": _parse_args}
d.setup = lambda ctx, st: F.install_axioms()

c_, j_ = z3.Ints("ld!c ld!j")


def _facts(L_or_A_db, root, conf, upto):
    """entries produced by the first `upto` commands sit at their offsets, in order"""
    dbv = L_or_A_db
    off = lambda k: Off()(dbv.arr, root, root, k)      # noqa: E731
    cmd = lambda k: VAtom(CMD, dbv.arr[k])              # noqa: E731
    return z3.ForAll([c_, j_], z3.Implies(
        z3.And(0 <= c_, c_ < upto, emitted(root, cmd(c_)), 0 <= j_, j_ < ncfg(cmd(c_))),
        entry_is(conf.arr[off(c_) + j_], root, cmd(c_), VAtom(CONFIG, _cfg_at(dbv.arr[c_], j_)))))


def _link(dbv, root, k, cfgseq):
    """the opaque parser's answer for command k is what n_configs / config_at denote"""
    return z3.And(cfgseq.n == _ncfg(dbv.arr[k]),
                  z3.ForAll([j_], z3.Implies(z3.And(0 <= j_, j_ < cfgseq.n), cfgseq.arr[j_] == _cfg_at(dbv.arr[k], j_))))


def _outer(L):
    root = L.args.rootdir.t
    dbv = L.seq
    return [("number-of-entries==entries-of-the-commands-so-far", L.configuration.n == Off()(dbv.arr, root, root, L.i)),
            ("entries-so-far-are-the-resolved-entries-in-database-order", _facts(dbv, root, L.configuration, L.i)),
            ("offsets-are-consecutive-and-fit",
             z3.ForAll([c_], z3.Implies(z3.And(0 <= c_, c_ < L.i), z3.And(
                 Off()(dbv.arr, root, root, c_) >= 0,
                 Off()(dbv.arr, root, root, c_ + 1) == Off()(dbv.arr, root, root, c_)
                 + z3.If(emitted(root, VAtom(CMD, dbv.arr[c_])), _ncfg(dbv.arr[c_]), 0),
                 Off()(dbv.arr, root, root, c_ + 1) <= Off()(dbv.arr, root, root, L.i))))),
            ("one-warning-per-skipped-entry", L.log.n == Skipped()(dbv.arr, root, root, L.i)),
            ("only-warnings", z3.ForAll([j_], z3.Implies(z3.And(0 <= j_, j_ < L.log.n),
                                                         LOGREC.field(L.log.arr[j_], 0) == 30)))]


def _outer_hints(L):
    root = L.args.rootdir.t
    dbv = L.seq
    return [Off().step((dbv.arr, root, root), L.i), Skipped().step((dbv.arr, root, root), L.i),
            z3.ForAll([c_], _ncfg(dbv.arr[c_]) >= 0)]


def _inner(L):
    root = L.args.rootdir.t
    dbv = L.outer.seq
    k = L.outer.i
    cmd = VAtom(CMD, dbv.arr[k])
    base = Off()(dbv.arr, root, root, k)
    return [("number-of-entries==offset+configurations-so-far", L.configuration.n == base + L.i),
            ("earlier-entries-untouched", _facts(dbv, root, L.configuration, k)),
            ("entries-of-this-command-so-far",
             z3.ForAll([j_], z3.Implies(z3.And(0 <= j_, j_ < L.i),
                                        entry_is(L.configuration.arr[base + j_], root, cmd, VAtom(CONFIG, L.seq.arr[j_])))))]


def _inner_hints(L):
    root = L.args.rootdir.t
    dbv = L.outer.seq
    k = L.outer.i
    p = (dbv.arr, root, root)
    return []


d.loop(0, LoopSpec(_outer, hints=_outer_hints))
d.loop(1, LoopSpec(_inner, hints=_inner_hints))


@d.ensures
def _(A, R):
    root = A.rootdir.t
    dbv = SeqOf(CMD).wrap(_db(A.dbpath.t))
    n = dbv.n
    res = R.result
    nskip = Skipped()(dbv.arr, root, root, n)
    lg = R.logseq
    return [("result-has-one-entry-per-configuration-of-every-supported-existing-file",
             res.n == Off()(dbv.arr, root, root, n)),
            ("every-entry-resolves-file-and--I-against-the-entry's-directory", _facts(dbv, root, res, n)),
            ("one-warning-per-skipped-entry(+1 if nothing was found)",
             lg.n == nskip + z3.If(res.n == 0, 1, 0))]


# ---------------------------------------------------------------- is_supported
s = contract("codebasin:CompileCommand.is_supported", props=["C13"])
s.param("self", ObjSpec("CompileCommand", {"_filename": PATH, "_arguments": Opt(SeqOf(ARG)), "_command": STR}))


@s.requires
def _(A):
    return [("arguments-form", z3.Not(A.self._arguments.is_none()))]


@s.ensures
def _(A, R):
    import contracts.C09 as C09
    C09._INDEX.setdefault("index", R.st.ghost.get("index"))
    args = A.self._arguments.get()
    ok_ext, _ = C09.ext_ok(C09._INDEX["index"], A.self._filename.t)
    return [("supported<=>non-empty-command-and-source-suffix", R.result.t == z3.And(args.n > 0, ok_ext))]


s.setup = lambda ctx, st: (F.install_axioms(), st.ghost.__setitem__("index", ctx.index))

# ---------------------------------------------------------------- CompileCommand.arguments
# The `arguments` form is returned as it is (the empty list included); only when it is absent is the `command` string
# split, by shlex.split (assumed: a function of the string; its POSIX conformance is a recorded finding of C11).
from pyvc.stubs import stub as _stub      # noqa: E402

_shlex = z3.Function("shlex.split", z3.StringSort(), SeqOf(ARG).sort())


@_stub("shlex.split", assumed="shlex.split(s) is a function of the string s (its quoting rules are CPython's, not verified)")
def _shlex_split(ex, st, pos, kw, node, star):
    v = ops.deref(st, pos[0])
    if isinstance(v, VOpt):
        return ex.guarded(st, [(v.is_none(), Exc("ValueError", node.lineno, "s argument must not be None")),
                               (z3.Not(v.is_none()), SeqOf(ARG).wrap(_shlex(v.get().t)))])
    if not isinstance(v, VStr) or len(pos) != 1 or kw:
        from pyvc.state import Unsupported
        raise Unsupported("shlex.split of a non-string / with options")
    return [(st, SeqOf(ARG).wrap(_shlex(v.t)))]


ar = contract("codebasin:CompileCommand.arguments", props=["C13", "C11"])
ar.param("self", ObjSpec("CompileCommand", {"_arguments": Opt(SeqOf(ARG)), "_command": Opt(STR)}))


@ar.requires
def _(A):
    return [("one of the two forms is present (checked by __init__)",
             z3.Or(z3.Not(A.self._arguments.is_none()), z3.Not(A.self._command.is_none())))]


@ar.ensures
def _(A, R):
    a, c = A.self._arguments, A.self._command
    want = SeqOf(ARG).wrap(_shlex(c.get().t))
    r = ops.deref(R.st, R.result)
    some, seq = (z3.Not(r.is_none()), r.get()) if isinstance(r, VOpt) else (z3.BoolVal(True), r)
    if not isinstance(seq, VSeq):
        return [("the result is a list of words", z3.BoolVal(False))]
    return [("the arguments form is returned unchanged whenever it is present - an empty list too",
             z3.Implies(z3.Not(a.is_none()), z3.And(some, seq.eq(a.get())))),
            ("otherwise the command string is split",
             z3.Implies(a.is_none(), z3.And(some, seq.eq(want))))]

# ---------------------------------------------------------------- CompileCommand.from_json (+ __init__, inlined)
# The JSON object -> CompileCommand step: every member lands in its own field, nothing is defaulted or swapped, and the
# object is refused (ValueError) exactly when neither `arguments` nor `command` is present.  JSON values are opaque.
JV = Atom("JsonValue")
fj = contract("codebasin:CompileCommand.from_json", props=["C13"])
fj.param("cls", VFunc("class", "CompileCommand")).param("instance", MapOf(STR, JV))


def _k(s):
    return VStr(z3.StringVal(s))


@fj.requires
def _(A):
    # the schema (util._validate_json, not verified) requires "file"; from_json is only reached after validation
    return [("schema: file is present", A.instance.has(_k("file")))]


fj.raises("ValueError", lambda A: z3.And(z3.Not(A.instance.has(_k("arguments"))),
                                         z3.Not(A.instance.has(_k("command")))))


@fj.ensures
def _(A, R):
    obj = R.st.heap.get(getattr(R.result, "oid", None))
    if obj is None or obj.cls != "CompileCommand":
        return [("the result is a CompileCommand", z3.BoolVal(False))]
    m = A.instance
    out = [("the result is a CompileCommand", z3.BoolVal(True))]

    def member(field, key, optional=True):
        v = ops.deref(R.st, obj.fields[field]) if field in obj.fields else None
        has = m.has(_k(key))
        if v is None:
            return z3.BoolVal(False)
        if isinstance(v, VNone):
            return z3.Not(has)
        if isinstance(v, VOpt):
            if getattr(v.kind, "inner", None) is not JV:
                return z3.BoolVal(False)
            return z3.If(has, z3.And(z3.Not(v.is_none()), v.get().t == m.get(_k(key)).t), v.is_none())
        if not (isinstance(v, VAtom) and v.kind is JV):
            return z3.BoolVal(False)           # a value that is not a member of the object at all (a default, say)
        return z3.And(has, v.t == m.get(_k(key)).t)
    for field, key in (("_filename", "file"), ("_directory", "directory"), ("_arguments", "arguments"),
                       ("_command", "command"), ("_output", "output")):
        out.append((f"{field} is the object's `{key}` member, None when absent", member(field, key)))
    return out

UNITS = ["codebasin.config:load_database", "codebasin:CompileCommand.is_supported", "codebasin:CompileCommand.arguments",
         "codebasin:CompileCommand.from_json"]
ASSUMPTIONS = [
    "A4 os.path.{isabs,abspath,join,exists,basename} are pure functions/predicates of the name on a static file system",
    "CompilationDatabase.from_file and ArgumentParser(...).parse_args are opaque (assumed to return a list of commands / "
    "configurations; C11/C12 own argument parsing); exceptions raised by them propagate",
    "A7 DEBUG logging disabled (debug-only statements are not verified); log.warning appends one record",
    "the `command` string form goes through shlex.split (not modelled): is_supported is proved for the arguments form",
    "from_json: JSON values are opaque (Atom JsonValue); the precondition `file` present is the schema's (util._validate_json, "
    "not verified); CompilationDatabase.from_json/from_file (json loading, schema, comprehension) only in the native check",
]
NOT_COVERED = ["JSON schema validation of the database", "shlex.split for the `command` form (bounded native check only)"]
EXPLANATION = ("load_database is proved (two nested loops, offset/prefix-sum invariants) to emit, in database order, exactly one "
               "entry per configuration of every supported command whose file exists, with file and -I directories resolved "
               "against the entry's directory, one warning per skipped entry, and no exception for any directory spelling. "
               "CompileCommand.from_json (with __init__ inlined) is proved to put each of the five JSON members into its own "
               "field, None when absent, and to raise ValueError exactly when neither arguments nor command is present; "
               "the list comprehension of CompilationDatabase.from_json and the schema validation stay unverified.")
