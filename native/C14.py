"""Native bounded stand-in for C14: the three front ends are run in fresh interpreter
processes under different PYTHONHASHSEED values and with the [platform.*] tables
permuted; the order-free views of their outputs must coincide."""
import json
import os
import re

from native import cli
from native.systarget import SysTarget


def dup_groups(out):
    groups, cur = [], None
    for line in out.splitlines():
        if line.startswith("Match "):
            cur = set()
            groups.append(cur)
        elif line.startswith("- ") and cur is not None:
            cur.add(line[2:].strip())
    return sorted(sorted(g) for g in groups)


class Determinism(SysTarget):
    def compare(self, sb, case, cfg, exp, used, state):
        plats = sorted(case["platforms"])
        views = []
        for seed, order, sd in ((0, plats, "forward"), (1, list(reversed(plats)), "reverse"), (4242, plats[1:] + plats[:1], "forward")):
            toml = cli.write_inputs(sb, case, cfg_order=order, tag=f"_{seed}")
            rc, out, err = cli.run("codebasin", ["-R", "summary", "-R", "duplicates", toml], sb.root, hashseed=seed, scandir=sd)
            if rc != 0:
                return {"expected": "codebasin succeeds", "observed": err[-300:], "klass": "determinism:fails"}
            rows, total, metrics = cli.parse_summary(out)
            rc, tout, err = cli.run("codebasin.tree", [toml], sb.root, hashseed=seed, scandir=sd)
            trows = sorted((r["name"].split()[-1], r["sloc"], r["cov"], r["avg"]) for r in cli.parse_tree(tout)) if rc == 0 else None
            covp = os.path.join(sb.root, f"cov_{seed}.json")
            rc, _, err = cli.run("codebasin.coverage", ["compute", "-S", sb.abs(case["codebase"]), "-o", covp,
                                                        os.path.join(sb.root, f"db_{plats[0]}.json")], sb.root, hashseed=seed, scandir=sd)
            cov = {r["file"]: (r["id"], sorted(r["used_lines"]), sorted(r["unused_lines"])) for r in json.load(open(covp))} if rc == 0 else None
            views.append({"summary": {",".join(sorted(k)): v for k, v in rows.items()}, "total": total, "metrics": metrics,
                          "duplicates": dup_groups(out), "tree": trows, "coverage": cov})
        for v in views[1:]:
            for k in views[0]:
                if v[k] != views[0][k]:
                    return {"expected": f"{k}: {str(views[0][k])[:300]}", "observed": str(v[k])[:300], "klass": "determinism:" + k}
        return None


TARGETS = {"codebasin.finder:ParserState.get_setmap": Determinism("determinism", ("multi", "dupes", "links", "mixed", "linkinc", "redefine"), quick_n=4, thorough_n=60)}
