#!/bin/bash
# tools/seed_sweep.sh <seeds...> : run every claimed quick check under several VERIF_SEED values; print non-zero exits
cd "$(dirname "$0")/.."
for sd in "$@"; do
  for p in $(python3 -c "import json;print(' '.join(c['property_id'] for c in json.load(open('MANIFEST.json'))['checks']))"); do
    out=$(VERIF_SEED=$sd timeout 1500 ./check $p --tier quick 2>&1); rc=$?
    echo "seed=$sd $p exit=$rc $(echo "$out" | grep -E '^C[0-9]+ \[' | sed 's/.*; //')"
    if [ $rc -ne 0 ]; then echo "$out" | grep -v "^KNOWN" | tail -5; fi
  done
done
