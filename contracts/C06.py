"""
Contracts for C06 -- every counted line lands in exactly one platform set;
reports agree.  (finder.ParserState.get_setmap, report.summary arithmetic,
report.FileTree, coverage._compute)
"""
import z3

from pyvc.contract import contract, lemma, LoopSpec, ObjSpec, CellOf
from pyvc.values import *  # noqa
from pyvc import bigop, ops
from pyvc.bigop import BigSum, PrefixSum
from pyvc import fsmodel as F
from pyvc.fsmodel import PATH
from pyvc.speclib import P, PSet
import contracts.C15 as C15
from contracts.C15 import NODE, TREE, ASSOCV, PSTATE, cache_valid

CB = Abstract("CodeBase", attrs={"__iter__": PATH, "__contains__": PATH})
SETMAP = MapOf(PSet, INT)

_walk = TREE.method_fn("walk")
_wk = SeqOf(NODE)
_num = NODE.attr_fn("num_lines", INT)
_isa = z3.Function("Node.isa:CodeNode", NODE.sort(), z3.BoolSort())
_iter = z3.Function("CodeBase.__iter__", CB.sort(), SetOf(PATH).sort())
_in = z3.Function("CodeBase.__contains__", CB.sort(), PATH.sort(), z3.BoolSort())

_memo = {}


def FileSum():
    """FileSum(tree, assoc, S, n): lines of the first n nodes of walk(tree) that are
    code nodes attributed to exactly the platform set S"""
    if "fs" not in _memo:
        def term(tree, assoc, S, i):
            nd = _wk.wrap(_walk(tree)).arr[i]
            return z3.If(z3.And(_isa(nd), assoc[nd] == S), _num(nd), 0)
        _memo["fs"] = PrefixSum("FileSum", [("tree", TREE.sort()), ("assoc", ASSOCV.sort()), ("S", PSet.sort())], term)
    return _memo["fs"]


def skipped(cb, f):
    """a symbolic link whose target is in the code base adds nothing"""
    return z3.And(F.is_symlink(f), _in(cb, F.realpath(f)))


def file_total(trees_val, maps_val, S, f):
    rp = F.realpath(f)
    tree = trees_val[rp]
    return FileSum()(tree, maps_val[rp], S, _wk.wrap(_walk(tree)).n)


def Total():
    """Total(trees, maps, cb, S, files): sum over the enumerated files that are not
    skipped links of their per-file line count for platform set S"""
    if "tot" not in _memo:
        tv = z3.ArraySort(PATH.sort(), TREE.sort())
        mv = z3.ArraySort(PATH.sort(), ASSOCV.sort())
        _memo["tot"] = BigSum("SetmapTotal", [("trees", tv), ("maps", mv), ("cb", CB.sort()), ("S", PSet.sort())],
                              PATH.sort(),
                              lambda trees, maps, cb, S, f: z3.If(skipped(cb, f), 0, file_total(trees, maps, S, f)))
    return _memo["tot"]


def get0(m, S):
    return z3.If(m.dom[S], m.valarr[S], 0)


g = contract("codebasin.finder:ParserState.get_setmap", props=["C06", "C10", "C14", "C15"])
g.param("self", PSTATE).param("codebase", CB)
g.local("setmap", MapOf(PSet, INT))
g.modifies = ["self._path_cache"]


@g.requires
def _(A):
    F.install_axioms()
    f = z3.Const("gs!f", PATH.sort())
    return C15.state_inv(A.self) + [
        ("every-enumerated-file-has-been-parsed (find() pre-parses the code base)",
         z3.ForAll([f], z3.Implies(_iter(A.codebase.t)[f], A.self.trees.dom[F.realpath(f)]))),
        ("walk-length-nonnegative", z3.BoolVal(True)),
    ]


def _outer_inv(L):
    S = z3.Const("gs!S", PSet.sort())
    s = L.args.self
    return [("setmap==sum-over-files-seen", z3.ForAll([S], get0(L.setmap, S) == Total()(
        s.trees.valarr, s.maps.valarr, L.args.codebase.t, S, L.seen.t))),
        ("path-cache-valid", cache_valid(L.self._path_cache))]


def _inner_inv(L):
    S = z3.Const("gs!S", PSet.sort())
    tree = L.tree.get().t
    assoc = L.association.get().t
    return [("setmap==setmap-at-file-start+lines-of-nodes-so-far",
             z3.ForAll([S], get0(L.setmap, S) == get0(L.entry.setmap, S) + FileSum()(tree, assoc, S, L.i)))]


def _inner_hints(L):
    S = z3.Const("gs!S", PSet.sort())
    tree = L.tree.get().t
    assoc = L.association.get().t
    return [z3.ForAll([S], FileSum().step((tree, assoc, S), L.i))]


g.loop(0, LoopSpec(_outer_inv))
g.loop(1, LoopSpec(_inner_inv, hints=_inner_hints))


@g.ensures
def _(A, R):
    S = z3.Const("gs!S", PSet.sort())
    s = A.self
    res = R.result
    return [("one-platform-set-per-line: result[S]==sum over canonical files of the lines attributed to exactly S",
             z3.ForAll([S], get0(res, S) == Total()(s.trees.valarr, s.maps.valarr, A.codebase.t, S,
                                                    _iter(A.codebase.t))))]


UNITS = ["codebasin.finder:ParserState.get_setmap"]
ASSUMPTIONS = [
    "A4 static file system; code base enumeration is an arbitrary duplicate-free enumeration of a finite set of paths",
    "tree.walk() is a pure function of the tree (list of nodes); a node's num_lines does not change while counting",
]
NOT_COVERED = ["rendered text of the reports (tabulate, f-strings, JSON)"]
EXPLANATION = "get_setmap is proved to compute, per platform set, the sum over canonical files of the lines of code nodes attributed to exactly that set."
