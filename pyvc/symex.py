"""
pyvc.symex -- forward symbolic execution of the real Python ast with path
splitting, loops cut by invariants, exceptions as explicit outcomes and
modular calls (DESIGN 2.5).
"""
import ast
import z3

from .values import *  # noqa
from .state import *   # noqa
from . import ops, bigop
from .contract import LoopSpec, CellOf, ObjSpec

MAX_UNROLL = 64
FEAS_TIMEOUT_MS = 500


class View:
    """read-only attribute view of an environment in a given state"""

    def __init__(self, st, env, extra=None):
        object.__setattr__(self, "_st", st)
        object.__setattr__(self, "_env", env)
        object.__setattr__(self, "_extra", extra or {})

    def __getattr__(self, name):
        if name in self._extra:
            return self._extra[name]
        if name not in self._env:
            raise AttributeError(f"no local '{name}' in view")
        return _view_value(self._st, self._env[name])

    def has(self, name):
        return name in self._env or name in self._extra

    def raw(self, name):
        return self._env[name]


class ObjView:
    def __init__(self, st, oid):
        object.__setattr__(self, "_st", st)
        object.__setattr__(self, "_oid", oid)

    def __getattr__(self, name):
        o = self._st.heap[self._oid]
        if name not in o.fields:
            raise AttributeError(f"object of class {o.cls} has no field '{name}'")
        return _view_value(self._st, o.fields[name])


def _view_value(st, v):
    if isinstance(v, VObj):
        o = st.heap[v.oid]
        if o.k == "cell":
            return o.val
        return ObjView(st, v.oid)
    return v


class Executor:
    def __init__(self, ctx, contracts, stubs):
        self.ctx = ctx
        self.index = ctx.index
        self.contracts = contracts
        self.stubs = stubs
        self.fn_stack = []           # FuncInfo being executed (inlining stack)
        self.contract_stack = []     # Contract of the unit under verification
        self.loop_counters = []      # per function frame: next loop ordinal
        self.entry_views = []

    # ------------------------------------------------------------------ utils
    def feasible(self, st, extra=None):
        s = z3.Solver()
        s.set("timeout", FEAS_TIMEOUT_MS)
        s.add(*st.pc)
        if extra is not None:
            s.add(extra)
        return s.check() != z3.unsat

    def split(self, st, cond):
        """-> (state where cond holds | None, state where it fails | None)"""
        c = concrete_bool(cond)
        if c is True:
            return st, None
        if c is False:
            return None, st
        t = f = None
        if self.feasible(st, cond):
            t = st.fork()
            t.assume(cond)
        if self.feasible(st, z3.Not(cond)):
            f = st.fork()
            f.assume(z3.Not(cond))
        return t, f

    def guarded(self, st, alts):
        """alts: [(cond|None, value|Exc)] -> [(state, value|Exc)]"""
        out = []
        for cond, val in alts:
            if cond is None:
                out.append((st, val))
                continue
            c = concrete_bool(cond)
            if c is False:
                continue
            if c is True:
                out.append((st, val))
                continue
            if self.feasible(st, cond):
                s2 = st.fork()
                s2.assume(cond)
                out.append((s2, val))
        return out

    def cur_module(self):
        return self.fn_stack[-1].module

    def line(self, node):
        return getattr(node, "lineno", None)

    # ------------------------------------------------------------- statements
    def exec_block(self, st, stmts):
        results = [(st, NORMAL)]
        for s in stmts:
            nxt = []
            for st1, oc in results:
                if not isinstance(oc, Normal):
                    nxt.append((st1, oc))
                    continue
                nxt.extend(self.exec_stmt(st1, s))
            results = nxt
            if not results:
                break
        return results

    def exec_stmt(self, st, s):
        m = getattr(self, "stmt_" + type(s).__name__, None)
        if m is None:
            raise Unsupported(f"statement {type(s).__name__} at line {self.line(s)}")
        return m(st, s)

    def stmt_Pass(self, st, s):
        return [(st, NORMAL)]

    def stmt_Global(self, st, s):
        raise Unsupported("global statement")

    def stmt_Expr(self, st, s):
        if isinstance(s.value, ast.Constant):
            return [(st, NORMAL)]          # docstring
        out = []
        for st1, v in self.eval(st, s.value):
            out.append((st1, Raise(v) if isinstance(v, Exc) else NORMAL))
        return out

    def stmt_Return(self, st, s):
        if s.value is None:
            return [(st, Return(VNone()))]
        return [(st1, Raise(v) if isinstance(v, Exc) else Return(v)) for st1, v in self.eval(st, s.value)]

    def stmt_Break(self, st, s):
        return [(st, Break())]

    def stmt_Continue(self, st, s):
        return [(st, Continue())]

    def stmt_Raise(self, st, s):
        if s.exc is None:
            raise Unsupported("bare raise")
        e = s.exc
        name = None
        if isinstance(e, ast.Call):
            e = e.func
        if isinstance(e, ast.Name):
            name = e.id
        elif isinstance(e, ast.Attribute):
            name = e.attr
        if name is None:
            raise Unsupported("raise of a computed exception")
        return [(st, Raise(Exc(name, self.line(s))))]

    def stmt_Assert(self, st, s):
        out = []
        for st1, v in self.eval(st, s.test):
            if isinstance(v, Exc):
                out.append((st1, Raise(v)))
                continue
            t, f = self.split(st1, ops.truth(st1, v))
            if t:
                out.append((t, NORMAL))
            if f:
                out.append((f, Raise(Exc("AssertionError", self.line(s)))))
        return out

    def stmt_Assign(self, st, s):
        out = []
        for st1, v in self.eval(st, s.value):
            if isinstance(v, Exc):
                out.append((st1, Raise(v)))
                continue
            res = [(st1, NORMAL)]
            for tgt in s.targets:
                nxt = []
                for st2, oc in res:
                    if isinstance(oc, Normal):
                        nxt.extend(self.assign(st2, tgt, v))
                    else:
                        nxt.append((st2, oc))
                res = nxt
            out.extend(res)
        return out

    def stmt_AnnAssign(self, st, s):
        if s.value is None:
            return [(st, NORMAL)]
        out = []
        for st1, v in self.eval(st, s.value):
            if isinstance(v, Exc):
                out.append((st1, Raise(v)))
            else:
                out.extend(self.assign(st1, s.target, v))
        return out

    def stmt_AugAssign(self, st, s):
        opname = _BINOPS[type(s.op)]
        load = _as_load(s.target)
        out = []
        for st1, cur in self.eval(st, load):
            if isinstance(cur, Exc):
                out.append((st1, Raise(cur)))
                continue
            for st2, rhs in self.eval(st1, s.value):
                if isinstance(rhs, Exc):
                    out.append((st2, Raise(rhs)))
                    continue
                # in-place container updates keep identity
                if ops.is_cell(st2, cur):
                    out.extend(self.inplace(st2, cur, opname, rhs, s))
                    continue
                for st3, val in self.guarded(st2, ops.binop(st2, opname, cur, rhs, self.line(s))):
                    if isinstance(val, Exc):
                        out.append((st3, Raise(val)))
                    else:
                        out.extend(self.assign(st3, s.target, val))
        return out

    def inplace(self, st, cell, opname, rhs, s):
        cur = ops.deref(st, cell)
        r = ops.deref(st, rhs)
        if opname == "+" and isinstance(cur, (VSeq, VEmptySeq)):
            return [(s2, Raise(v) if isinstance(v, Exc) else NORMAL)
                    for s2, v in self.call_method(st, cell, "extend", [rhs], {}, s)]
        if opname == "|" and isinstance(cur, (VSet, VEmptySet)):
            return [(s2, Raise(v) if isinstance(v, Exc) else NORMAL)
                    for s2, v in self.call_method(st, cell, "update", [rhs], {}, s)]
        raise Unsupported(f"in-place {opname} on {cur!r}")

    def current_contract(self):
        """contract whose loop/sum/local annotations apply to the function being executed"""
        if self.contract_stack and len(self.fn_stack) == 1:
            return self.contract_stack[-1]
        return self.contracts.get(self.fn_stack[-1].key)

    def declared_kind(self, name):
        if self.contract_stack and len(self.fn_stack) == 1:
            return self.contract_stack[-1].locals.get(name)
        # locals declared for inlined callees via their own contract object, if any
        c = self.contracts.get(self.fn_stack[-1].key)
        if c:
            return c.locals.get(name)
        return None

    def assign(self, st, tgt, v):
        if isinstance(tgt, ast.Name):
            k = self.declared_kind(tgt.id)
            if k is not None:
                if ops.is_cell(st, v):
                    o = st.heap[v.oid]
                    o.val = ops.coerce(st, o.val, k)
                else:
                    v = ops.coerce(st, v, k)
            st.env[tgt.id] = v
            return [(st, NORMAL)]
        if isinstance(tgt, (ast.Tuple, ast.List)):
            vv = ops.deref(st, v)
            if isinstance(vv, VTuple):
                items = vv.items
            elif isinstance(vv, VSeq) and vv.items is not None:
                items = vv.items
            else:
                raise Unsupported(f"unpacking {vv!r}")
            if len(items) != len(tgt.elts):
                return [(st, Raise(Exc("ValueError", self.line(tgt))))]
            res = [(st, NORMAL)]
            for t, x in zip(tgt.elts, items):
                nxt = []
                for s2, oc in res:
                    nxt.extend(self.assign(s2, t, x) if isinstance(oc, Normal) else [(s2, oc)])
                res = nxt
            return res
        if isinstance(tgt, ast.Attribute):
            out = []
            for st1, o in self.eval(st, tgt.value):
                if isinstance(o, Exc):
                    out.append((st1, Raise(o)))
                    continue
                out.extend(self.set_attr(st1, o, tgt.attr, v, tgt))
            return out
        if isinstance(tgt, ast.Subscript):
            out = []
            for st1, c in self.eval(st, tgt.value):
                if isinstance(c, Exc):
                    out.append((st1, Raise(c)))
                    continue
                for st2, k in self.eval_index(st1, tgt.slice):
                    if isinstance(k, Exc):
                        out.append((st2, Raise(k)))
                        continue
                    out.extend(self.set_item(st2, c, k, v, tgt))
            return out
        raise Unsupported(f"assignment target {type(tgt).__name__}")

    def set_attr(self, st, o, attr, v, node):
        if isinstance(o, VObj) and st.heap[o.oid].k == "inst":
            st.heap[o.oid].fields[attr] = v
            return [(st, NORMAL)]
        if isinstance(o, VRefT):
            return self.symref_set(st, o, attr, v, node)
        raise Unsupported(f"attribute store on {o!r} (line {self.line(node)})")

    def set_item(self, st, c, k, v, node):
        """c[k] = v ; c is a cell, or write-through `a[b][k] = v` is unsupported"""
        if isinstance(c, VObj) and st.heap[c.oid].k == "inst" and st.heap[c.oid].cls == "$dict":
            kk = ops.deref(st, k)
            ck = concrete_str(kk.t) if isinstance(kk, VStr) else None
            if ck is None:
                raise Unsupported("computed key on a record-like dict")
            st.heap[c.oid].fields[ck] = v
            return [(st, NORMAL)]
        if not ops.is_cell(st, c):
            raise Unsupported(f"item assignment into a borrowed/immutable container (line {self.line(node)})")
        cell = st.heap[c.oid]
        cur = cell.val
        k = ops.deref(st, k)
        vv = ops.deref(st, v)
        if isinstance(cur, (VEmptyMap, VEmptyDefault)):
            raise Unsupported(f"dict of unknown kind at line {self.line(node)}; declare a local kind")
        if isinstance(cur, VMap):
            cell.val = cur.put(ops.coerce(st, k, cur.key), ops.coerce(st, vv, cur.val))
            return [(st, NORMAL)]
        if isinstance(cur, VSeq):
            if cur.items is not None:
                i = concrete_int(k.t)
                if i is not None:
                    n = len(cur.items)
                    if -n <= i < n:
                        items = list(cur.items)
                        items[i] = ops.coerce(st, vv, cur.elem)
                        cell.val = VSeq.of(cur.elem, items)
                        return [(st, NORMAL)]
                    return [(st, Raise(Exc("IndexError", self.line(node))))]
            n = cur.length()
            idx = z3.If(k.t < 0, k.t + n, k.t)
            ok = z3.And(idx >= 0, idx < n)
            out = []
            t, f = self.split(st, ok)
            if t:
                c2 = ops.deref(t, c)
                x = ops.coerce(t, vv, cur.elem)
                t.heap[c.oid].val = c2.set_at(idx, x)
                out.append((t, NORMAL))
            if f:
                out.append((f, Raise(Exc("IndexError", self.line(node)))))
            return out
        raise Unsupported(f"item assignment on {cur!r}")

    def stmt_Delete(self, st, s):
        res = [(st, NORMAL)]
        for tgt in s.targets:
            nxt = []
            for st1, oc in res:
                if not isinstance(oc, Normal):
                    nxt.append((st1, oc))
                    continue
                if not isinstance(tgt, ast.Subscript):
                    raise Unsupported("del of non-subscript")
                for st2, c in self.eval(st1, tgt.value):
                    for st3, k in self.eval_index(st2, tgt.slice):
                        if not ops.is_cell(st3, c):
                            raise Unsupported("del on borrowed container")
                        cur = st3.heap[c.oid].val
                        if not isinstance(cur, VMap):
                            raise Unsupported(f"del on {cur!r}")
                        kk = ops.coerce(st3, ops.deref(st3, k), cur.key)
                        t, f = self.split(st3, cur.has(kk))
                        if t:
                            t.heap[c.oid].val = ops.deref(t, c).remove(kk)
                            nxt.append((t, NORMAL))
                        if f:
                            nxt.append((f, Raise(Exc("KeyError", self.line(s)))))
            res = nxt
        return res

    def stmt_If(self, st, s):
        out = []
        for st1, v in self.eval(st, s.test):
            if isinstance(v, Exc):
                out.append((st1, Raise(v)))
                continue
            t, f = self.split(st1, ops.truth(st1, v))
            if t:
                out.extend(self.exec_block(t, s.body))
            if f:
                out.extend(self.exec_block(f, s.orelse))
        return out

    def stmt_Try(self, st, s):
        if s.finalbody:
            raise Unsupported("try/finally")
        out = []
        for st1, oc in self.exec_block(st, s.body):
            if isinstance(oc, Raise):
                handled = False
                for h in s.handlers:
                    names = _handler_names(h)
                    if names is None or any(_exc_matches(self.index, oc.exc.name, n) for n in names):
                        if h.name:
                            st1.env[h.name] = VAtom(Atom("Exception"), z3.Const(self.ctx.fresh_name("exc"), Atom("Exception").sort()))
                            st1.ghost["exc:" + h.name] = oc.exc
                        out.extend(self.exec_block(st1, h.body))
                        handled = True
                        break
                if not handled:
                    out.append((st1, oc))
            elif isinstance(oc, Normal) and s.orelse:
                out.extend(self.exec_block(st1, s.orelse))
            else:
                out.append((st1, oc))
        return out

    def stmt_With(self, st, s):
        # `with open(...) as f:` and similar resource managers: the context
        # expression is evaluated through the stub table; __exit__ is a no-op.
        res = [(st, NORMAL)]
        for item in s.items:
            nxt = []
            for st1, oc in res:
                if not isinstance(oc, Normal):
                    nxt.append((st1, oc))
                    continue
                for st2, v in self.eval(st1, item.context_expr):
                    if isinstance(v, Exc):
                        nxt.append((st2, Raise(v)))
                    elif item.optional_vars is not None:
                        nxt.extend(self.assign(st2, item.optional_vars, v))
                    else:
                        nxt.append((st2, NORMAL))
            res = nxt
        out = []
        for st1, oc in res:
            if isinstance(oc, Normal):
                out.extend(self.exec_block(st1, s.body))
            else:
                out.append((st1, oc))
        return out

    def stmt_FunctionDef(self, st, s):
        fi = self.index.funcs.get(f"{self.fn_stack[-1].module}:{self.fn_stack[-1].qualname}.<locals>.{s.name}")
        if fi is None:
            raise Unsupported(f"nested def {s.name} not indexed")
        st.env[s.name] = VFunc("closure", (fi, st.env))
        return [(st, NORMAL)]

    # loops live in loops.py (mixed in below)


_BINOPS = {ast.Add: "+", ast.Sub: "-", ast.Mult: "*", ast.Div: "/", ast.FloorDiv: "//",
           ast.Mod: "%", ast.BitAnd: "&", ast.BitOr: "|", ast.BitXor: "^", ast.Pow: "**",
           ast.LShift: "<<", ast.RShift: ">>"}
_CMPOPS = {ast.Eq: "==", ast.NotEq: "!=", ast.Lt: "<", ast.LtE: "<=", ast.Gt: ">", ast.GtE: ">=",
           ast.Is: "is", ast.IsNot: "is not", ast.In: "in", ast.NotIn: "not in"}


def _as_load(t):
    import copy
    n = copy.copy(t)
    n.ctx = ast.Load()
    return n


def _handler_names(h):
    if h.type is None:
        return None
    ts = h.type.elts if isinstance(h.type, ast.Tuple) else [h.type]
    out = []
    for t in ts:
        if isinstance(t, ast.Name):
            out.append(t.id)
        elif isinstance(t, ast.Attribute):
            out.append(t.attr)
        else:
            raise Unsupported("computed except clause")
    return out


def _exc_matches(index, raised, handler):
    from .source import exc_matches
    return exc_matches(index, raised, handler)


class VRefT(V):
    """symbolic reference into field arrays (unbounded heap structures);
    defined here to avoid a cycle, used by heapmodel.py"""

    def __init__(self, cls, t):
        self.cls, self.t = cls, t
        self.kind = None

    def __repr__(self):
        return f"VRefT({self.cls},{self.t})"
