"""Native evaluation of the C04 resolver contract on the real Platform class
(temporary directory trees; sequences of lookups so that memo history matters)."""
import itertools
import os
import shutil
import tempfile

from codebasin.platform import Platform

DIRS = ["a", "b", "inc", "sys"]


def spec_resolve(root, name, this, angle, paths):
    for d in ([] if angle else [this]) + paths:
        c = os.path.abspath(os.path.join(d, name))
        if os.path.isfile(c):
            return c
    return None


class Resolver:
    proved = True
    role = "refuter + engine cross-check (bounded, not counted as proved)"

    def bound(self, tier):
        return ("header h.h present in every subset of 4 directories x 5 search-path configurations x all sequences "
                "of <=2 (quick) / <=3 (thorough) lookups over 6 (dir, form) combinations, plus a directory named h.h")

    def inputs(self, tier, seed):
        lookups = [(d, angle) for d in ("a", "b") for angle in (False, True)] + [("inc", False), ("sys", True)]
        pathcfgs = [[], ["inc"], ["inc", "sys"], ["sys", "inc"], ["b", "inc"]]
        maxlen = 2 if tier == "quick" else 3
        for present in itertools.product([0, 1, 2], repeat=len(DIRS)):
            if tier == "quick" and 2 in present and present.count(2) > 1:
                continue
            for cfg in pathcfgs:
                for n in range(1, maxlen + 1):
                    for seq in itertools.product(lookups, repeat=n):
                        if n == 3 and tier != "quick" and len(set(seq)) < 2:
                            continue
                        yield {"present": list(present), "paths": cfg, "seq": [list(x) for x in seq]}

    def nontrivial(self, inp):
        return len(inp["seq"]) >= 2 and sum(1 for p in inp["present"] if p == 1) >= 2

    def check(self, inp):
        root = tempfile.mkdtemp(prefix="cbi_c04_")
        try:
            for d, pres in zip(DIRS, inp["present"]):
                os.makedirs(os.path.join(root, d))
                if pres == 1:
                    with open(os.path.join(root, d, "h.h"), "w") as fh:
                        fh.write("// " + d + "\n")
                elif pres == 2:
                    os.makedirs(os.path.join(root, d, "h.h"))      # a directory, not a regular file
            plat = Platform("p", root)
            paths = [os.path.join(root, d) for d in inp["paths"]]
            for p in paths:
                plat.add_include_path(p)
            for k, (d, angle) in enumerate(inp["seq"]):
                this = os.path.join(root, d)
                exp = spec_resolve(root, "h.h", this, angle, paths)
                try:
                    obs = plat.find_include_file("h.h", this, angle)
                except Exception as e:      # noqa: BLE001
                    obs = f"raised {type(e).__name__}: {e}"
                if obs != exp:
                    rel = lambda x: None if x is None else os.path.relpath(x, root) if isinstance(x, str) and x.startswith(root) else x  # noqa: E731
                    hist = "first-lookup" if k == 0 else "after-earlier-lookup"
                    return {"expected": rel(exp), "observed": rel(obs), "at_lookup": k,
                            "klass": f"find_include_file:{hist}"}
            return None
        finally:
            shutil.rmtree(root, ignore_errors=True)


TARGETS = {"codebasin.platform:Platform.find_include_file": Resolver()}


# ---- system level: attribution across files (quote/angle/computed includes, guards,
# #pragma once, -I order, -include); real finder.find vs the reference preprocessor
from native.systarget import SysTarget  # noqa: E402

TARGETS["codebasin.preprocessor:IncludeNode.evaluate_for_platform"] = SysTarget(
    "includes", ("computed", "forced", "multi"), quick_n=400, thorough_n=6000)


# ---- recorded findings reported by defect hunting (fixed inputs; oracle gcc -E quoted in the descriptions) -------------
import json as _json                     # noqa: E402
import os as _os                         # noqa: E402
from native import recorded as _R      # noqa: E402


def _x_isystem_order():
    from codebasin import config
    with _R.tree({"main.c": "#include <h.h>\nint m;\n", "inc/h.h": "int from_inc;\n", "sys/h.h": "int from_sys;\n"}) as root:
        c = [x for x in config.ArgumentParser("gcc").parse_args(["-isystem", "sys", "-I", "inc", "-c", "main.c"]) if x.pass_name == "default"][0]
        e = {"file": _os.path.join(root, "main.c"), "defines": c.defines,
             "include_paths": [_os.path.join(root, d) for d in c.include_paths], "include_files": []}
        used = _R.used_lines(root, [e])
    return None if used.get("inc/h.h") == [1] and not used.get("sys/h.h") else (
        "inc/h.h is read (gcc searches every -I directory before the -isystem directories)", used)


def _x_forced_include_cwd():
    from codebasin import config
    with _R.tree({"src/main.c": "#ifdef PRE\nint yes;\n#else\nint no;\n#endif\n", "pre.h": "#define PRE 1\n"}) as root:
        db = _os.path.join(root, "db.json")
        with open(db, "w") as fh:
            _json.dump([{"directory": root, "file": "src/main.c", "arguments": ["gcc", "-include", "pre.h", "-c", "src/main.c"]}], fh)
        used = _R.used_lines(root, config.load_database(db, root))
    return None if used.get("src/main.c") == [1, 2, 3, 5] or 2 in used.get("src/main.c", []) else (
        "line 2 (`int yes;`) is used: gcc looks a -include file up in its working directory first, here <root>/pre.h", used)


TARGETS["codebasin.platform:Platform.find_include_file#recorded-findings"] = _R.Exhibits([
    ("includes:isystem-directories-searched-in-command-line-position", "gcc -isystem sys -I inc -c main.c ; #include <h.h>", _x_isystem_order),
    ("includes:forced-include-looked-up-beside-the-source-file", "directory=<root>: gcc -include pre.h -c src/main.c", _x_forced_include_cwd),
])
