"""Native bounded stand-in / refuter for C13: compilation-database entries resolve the
way a compiler started in the entry's directory resolves them."""
import itertools
import json
import logging
import os
import shutil
import tempfile

from codebasin import config


class _Count(logging.Handler):
    def __init__(self):
        super().__init__(level=logging.WARNING)
        self.records = []

    def emit(self, record):
        self.records.append(record)


DIRECTORY = [None, "ABS:build", "build", "proj/../build", ".", "ABS:outside", "../outside_rel"]
FILES = ["src/a.c", "ABS:src/a.c", "../src/a.c", "a_here.c", "missing.c", "src/x.o", "./src/../src/b.cpp"]
INCS = [[], ["-I", "inc"], ["-Iinc", "-I../inc"], ["-isystem", "ABS:inc", "-I."], ["-I", "../root_inc"]]
CMDS = ["ok", "empty", "string"]


class Resolve:
    proved = False
    role = "bounded stand-in / refuter for load_database (not counted as proved)"

    def bound(self, tier):
        return ("all combinations of 7 `directory` spellings x 7 `file` spellings x 5 -I lists x {arguments, command string, "
                "empty command}, one or two entries per database" if tier != "quick" else
                "7 directory spellings x 7 file spellings x 5 -I lists (arguments form) + all 3 command forms on a diagonal")

    def inputs(self, tier, seed):
        for d, f, inc in itertools.product(range(len(DIRECTORY)), range(len(FILES)), range(len(INCS))):
            yield {"d": d, "f": f, "inc": inc, "cmd": "ok", "second": False}
        for d, f in itertools.product(range(len(DIRECTORY)), range(len(FILES))):
            for c in ("empty", "string"):
                if tier != "quick" or (d + f) % 3 == 0:
                    yield {"d": d, "f": f, "inc": 1, "cmd": c, "second": True}

    def nontrivial(self, inp):
        return DIRECTORY[inp["d"]] is not None

    def check(self, inp):
        top = os.path.realpath(tempfile.mkdtemp(prefix="cbi_c13_"))
        root = os.path.join(top, "root")
        try:
            for d in ("src", "inc", "build", "proj", "root_inc"):
                os.makedirs(os.path.join(root, d))
            os.makedirs(os.path.join(top, "outside"))
            os.makedirs(os.path.join(top, "outside_rel"))
            os.makedirs(os.path.join(top, "src"))
            for p in ("src/a.c", "src/b.cpp", "src/x.o", "build/a_here.c", "a_here.c", "src/z.cpp"):
                with open(os.path.join(root, p), "w") as fh:
                    fh.write("int x;\n")
            with open(os.path.join(top, "src", "a.c"), "w") as fh:
                fh.write("int outer;\n")

            def absify(s):
                return os.path.join(root if not s[4:].startswith("outside") else top, s[4:]) if s.startswith("ABS:") else s
            dspec = DIRECTORY[inp["d"]]
            directory = None if dspec is None else absify(dspec)
            file = absify(FILES[inp["f"]])
            incs = [absify(x) for x in INCS[inp["inc"]]]
            entry = {"file": file}
            if directory is not None:
                entry["directory"] = directory
            argv = ["gcc", "-c"] + incs + ["-DX=1", file]
            if inp["cmd"] == "ok":
                entry["arguments"] = argv
            elif inp["cmd"] == "string":
                entry["command"] = " ".join(argv)
            else:
                entry["arguments"] = []
            db = [entry]
            if inp["second"]:
                db.append({"file": os.path.join(root, "src/z.cpp"), "arguments": ["g++", "-c", os.path.join(root, "src/z.cpp")]})
            dbpath = os.path.join(top, "compile_commands.json")
            with open(dbpath, "w") as fh:
                json.dump(db, fh)
            # --- expectation: a compiler started in Dir(e)
            cwd = root if directory is None else (directory if os.path.isabs(directory) else os.path.normpath(os.path.join(root, directory)))
            exp_file = os.path.normpath(os.path.join(cwd, file))
            supported = inp["cmd"] != "empty" and os.path.splitext(file)[1] in (".c", ".cpp")
            emitted = supported and os.path.exists(exp_file)
            exp_inc = []
            it = iter(incs)
            for a in it:
                if a in ("-I", "-isystem"):
                    exp_inc.append(os.path.normpath(os.path.join(cwd, next(it))))
                elif a.startswith("-I"):
                    exp_inc.append(os.path.normpath(os.path.join(cwd, a[2:])))
            h = _Count()
            lg = logging.getLogger("codebasin")
            lg.addHandler(h)
            prev = logging.root.manager.disable
            logging.disable(logging.NOTSET)
            try:
                try:
                    out = config.load_database(dbpath, root)
                except BaseException as e:      # noqa: BLE001
                    return {"expected": "no exception (entries are skipped or resolved)",
                            "observed": f"raised {type(e).__name__}: {e}",
                            "klass": "load_database:raises-" + type(e).__name__ + (":relative-directory" if directory and not os.path.isabs(directory) else "")}
            finally:
                lg.removeHandler(h)
                logging.disable(prev)
            mine = [e for e in out if not (inp["second"] and e["file"].endswith("z.cpp"))]
            if inp["second"] and not any(e["file"].endswith("z.cpp") for e in out):
                return {"expected": "the following entry is still analysed", "observed": "dropped", "klass": "load_database:later-entry-lost"}
            if emitted:
                if len(mine) != 1 or mine[0]["file"] != exp_file:
                    return {"expected": exp_file, "observed": [e["file"] for e in mine], "klass": "load_database:file-resolution"}
                if mine[0]["include_paths"] != exp_inc:
                    rel = directory is not None
                    return {"expected": exp_inc, "observed": mine[0]["include_paths"],
                            "klass": "load_database:include-dir-resolution" + (":entry-has-directory" if rel else "")}
            else:
                if mine:
                    return {"expected": "entry skipped", "observed": [e["file"] for e in mine], "klass": "load_database:not-skipped"}
                nwarn = sum(1 for r in h.records if r.levelno == logging.WARNING and "No files found" not in r.getMessage())
                if nwarn < 1:
                    kind = "missing-file" if supported else ("empty-command" if inp["cmd"] == "empty" else "not-a-source-file")
                    return {"expected": "skipped with a warning", "observed": "skipped silently",
                            "klass": "load_database:silent-skip:" + kind}
            return None
        finally:
            shutil.rmtree(top, ignore_errors=True)


class Sequences:
    """several entries in one database: state must not leak from one entry to the next"""
    proved = False
    role = "bounded stand-in for load_database on multi-entry databases"

    def bound(self, tier):
        return ("9 hand-built multi-entry databases (directory then no directory; argument vectors that differ only in how a value with a "
                "blank is split; repeated unknown compiler; entries that differ only in separately given option values; the same "
                "entry twice)")

    def inputs(self, tier, seed):
        for k in range(9):
            yield {"case": k}

    def nontrivial(self, inp):
        return True

    def check(self, inp):
        top = os.path.realpath(tempfile.mkdtemp(prefix="cbi_c13s_"))
        root = os.path.join(top, "root")
        try:
            for d in ("src", "inc", "build/src", "build/inc"):
                os.makedirs(os.path.join(root, d))
            for p in ("src/a.c", "src/z.cpp", "build/src/z.cpp", "build/src/a.c"):
                with open(os.path.join(root, p), "w") as fh:
                    fh.write("int x;\n")
            A = os.path.join(root, "src/a.c")
            k = inp["case"]
            if k in (0, 1):
                e1 = {"directory": os.path.join(root, "build"), "file": A, "arguments": ["gcc", "-c", "-Iinc", A]}
                e2 = {"file": "src/z.cpp", "arguments": ["g++", "-c", "-Iinc", "src/z.cpp"]}
                db = [e1, e2] if k == 0 else [e2, e1]
                want = {os.path.join(root, "src/z.cpp"): [os.path.join(root, "inc")], A: [os.path.join(root, "build/inc")]}
                wantd = None
            elif k in (2, 3):
                e1 = {"file": A, "arguments": ["gcc", "-c", "-DFLAGS=-O2 -DNDEBUG", A]}
                e2 = {"file": A, "arguments": ["gcc", "-c", "-DFLAGS=-O2", "-DNDEBUG", A]}
                db = [e1, e2] if k == 2 else [e2, e1]
                want = None
                wantd = [["FLAGS=-O2 -DNDEBUG"], ["FLAGS=-O2", "NDEBUG"]]
                if k == 3:
                    wantd.reverse()
            elif k in (6, 7, 8):
                Z = os.path.join(root, "src/z.cpp")
                e1 = {"file": A, "arguments": ["gcc", "-c", "-D", "KIND=alpha", "-I", "inc", "-include", "pre_a.h", "-DCOMMON", A]}
                e2 = {"file": Z, "arguments": ["gcc", "-c", "-D", "KIND=beta", "-I", "build/inc", "-include", "pre_b.h", "-DCOMMON", Z]}
                db = {6: [e1, e2], 7: [e2, e1], 8: [e1, e1, e2]}[k]
                want = None
                wantd = [["KIND=alpha", "COMMON"] if e is e1 else ["KIND=beta", "COMMON"] for e in db]
                wanti = [([os.path.join(root, "inc")], ["pre_a.h"]) if e is e1 else ([os.path.join(root, "build/inc")], ["pre_b.h"]) for e in db]
            else:
                db = [{"file": A, "arguments": ["mycc-unknown", "-c", A]},
                      {"file": os.path.join(root, "src/z.cpp"), "arguments": ["mycc-unknown", "-c", os.path.join(root, "src/z.cpp")]}]
                if k == 5:
                    db.append({"file": A, "arguments": ["other-unknown", "-c", A]})
                want = wantd = None
            dbpath = os.path.join(top, "db.json")
            json.dump(db, open(dbpath, "w"))
            h = _Count()
            lg = logging.getLogger("codebasin")
            lg.addHandler(h)
            prev = logging.root.manager.disable
            logging.disable(logging.NOTSET)
            try:
                out = config.load_database(dbpath, root)
            except BaseException as e:      # noqa: BLE001
                return {"expected": "no exception", "observed": f"{type(e).__name__}: {e}", "klass": "load_database:sequence-raises"}
            finally:
                lg.removeHandler(h)
                logging.disable(prev)
            if want is not None:
                got = {e["file"]: e["include_paths"] for e in out}
                if got != want:
                    return {"expected": want, "observed": got, "klass": "load_database:state-leaks-between-entries"}
            if wantd is not None:
                got = [e["defines"] for e in out]
                if got != wantd:
                    return {"expected": wantd, "observed": got, "klass": "load_database:entries-confused"}
            if k in (6, 7, 8):
                got = [(e["include_paths"], e["include_files"]) for e in out]
                if got != wanti:
                    return {"expected": wanti, "observed": got, "klass": "load_database:entries-confused"}
            if k in (4, 5):
                n = sum(1 for r in h.records if "not recognized" in r.getMessage())
                if n != len(db):
                    return {"expected": f"{len(db)} unknown-compiler warnings (one per entry)", "observed": n,
                            "klass": "load_database:one-warning-per-occurrence"}
            return None
        finally:
            shutil.rmtree(top, ignore_errors=True)


class FromJson:
    """CompileCommand.from_json / CompilationDatabase.from_json on every subset of the five members (values are
    distinct sentinels, so a swapped or defaulted member shows).  Complete over presence/absence; values opaque."""
    proved = False
    role = "refuter / engine cross-check for CompileCommand.from_json (every presence pattern of the 5 members)"
    KEYS = ("file", "directory", "arguments", "command", "output")
    VALS = {"file": "f.c", "directory": "/d", "arguments": ["cc", "-c", "f.c"], "command": "cc -c f.c -DX", "output": "f.o"}

    def bound(self, tier):
        return "all 32 presence patterns of {file, directory, arguments, command, output}, via both from_json entry points"

    def inputs(self, tier, seed):
        for m in range(32):
            yield {"present": [k for i, k in enumerate(self.KEYS) if m >> i & 1]}

    def nontrivial(self, inp):
        return "file" in inp["present"]

    def check(self, inp):
        import codebasin
        obj = {k: self.VALS[k] for k in inp["present"]}
        if "file" not in obj:
            return None                       # outside the precondition (the schema requires `file`)
        must_raise = "arguments" not in obj and "command" not in obj
        for how in ("CompileCommand.from_json", "CompilationDatabase.from_json"):
            try:
                if how.startswith("CompileCommand"):
                    c = codebasin.CompileCommand.from_json(dict(obj))
                else:
                    c = list(codebasin.CompilationDatabase.from_json([dict(obj)]))[0]
            except ValueError as e:
                if must_raise:
                    continue
                return {"expected": "a CompileCommand", "observed": f"ValueError: {e}", "via": how}
            if must_raise:
                return {"expected": "ValueError (neither arguments nor command)", "observed": "accepted", "via": how}
            got = {"file": c._filename, "directory": c._directory, "arguments": c._arguments,
                   "command": c._command, "output": c._output}
            want = {k: obj.get(k) for k in self.KEYS}
            if got != want:
                return {"expected": want, "observed": got, "via": how}
            if (c.filename, c.directory, c.output) != (want["file"], want["directory"], want["output"]):
                return {"expected": want, "observed": [c.filename, c.directory, c.output], "via": how + " properties"}
        return None


TARGETS = {"codebasin.config:load_database": Resolve(),
           "codebasin.config:load_database#sequences": Sequences(),
           "codebasin:CompileCommand.from_json": FromJson()}
