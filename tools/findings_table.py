#!/usr/bin/env python3
"""tools/findings_table.py -- writes FINDINGS.md from known_findings.json (fixed and open entries, one row each)"""
import json, os
V = os.path.dirname(os.path.dirname(os.path.abspath(__file__)))
k = json.load(open(os.path.join(V, "known_findings.json")))
fixed = [f for f in k["findings"] if f["status"] == "fixed"]
opened = [f for f in k["findings"] if f["status"] == "open"]
def cell(s):
    return s.replace("|", "\\|").replace("\n", " ")
with open(os.path.join(V, "FINDINGS.md"), "w") as fh:
    fh.write("# Genuine defects of intel/code-base-investigator found by the checks\n\n"
             "Written by `tools/findings_table.py` from `known_findings.json` (the file the checks read).\n"
             f"{len(fixed)} entries are repaired by a `fix:` commit in /repo (they suppress nothing), {len(opened)} are open and are printed as\n"
             "`KNOWN-FINDING:` lines by the check of their property, each exhibited by a fixed input.\n\n"
             "## Repaired\n\n| property | commit | what failed |\n|---|---|---|\n")
    for f in sorted(fixed, key=lambda f: f["property"]):
        fh.write(f"| {f['property']} | {f.get('commit','')} | {cell(f['what'])} |\n")
    fh.write("\n## Open (recorded)\n\n| property | class | what fails (and why it is not repaired) |\n|---|---|---|\n")
    for f in sorted(opened, key=lambda f: f["property"]):
        fh.write(f"| {f['property']} | `{f['klass']}` | {cell(f['what'])} |\n")
print(len(fixed), "fixed,", len(opened), "open")
