"""
Contracts for C04 -- #include resolution (codebasin/platform.py).

Spec (from the property statement): `Resolve(name, this_dir, angle, paths)` is
the first candidate abspath(join(d, name)) that is a regular file, d ranging
over ([] if angle else [this_dir]) ++ paths; None if there is none.  The
result may not depend on earlier lookups (memo history).
"""
import z3

from pyvc.contract import contract, lemma, LoopSpec, ObjSpec, CellOf
from pyvc.values import *  # noqa
from pyvc import bigop, ops
from pyvc import fsmodel as F
from pyvc.fsmodel import PATH

OPATH = Opt(PATH)
import os
KEY = TupleKey("inclkey", [("name", PATH), ("this", PATH), ("angle", BOOL)])
MEMO = MapOf(KEY, OPATH)
# The pinned tree (f8c92da) keyed the memo by the spelling alone.  With
# C04_SPELLING_KEY=1 the contract is typed for that shape; the only invariant such
# a memo admits from its own code is "every cached value is the resolution of the
# same spelling for SOME earlier (this_dir, angle)", under which the postcondition
# is refutable -- this is how the defect fixed in /repo was exhibited (DESIGN 9).
SPELLING_KEY = os.environ.get("C04_SPELLING_KEY") == "1"
if SPELLING_KEY:
    MEMO = MapOf(PATH, OPATH)

PLATFORM = ObjSpec("Platform", {
    "found_incl": CellOf(MEMO),
    "_include_paths": CellOf(SeqOf(PATH)),
    "_skip_includes": CellOf(SeqOf(PATH)),
})


def cands(this, angle, paths):
    """candidate directories as (array, length): ([] if angle else [this]) ++ paths"""
    i = z3.Int("cd!i")
    arr = z3.Lambda([i], z3.If(angle, paths.arr[i], z3.If(i == 0, this, paths.arr[i - 1])))
    return arr, z3.If(angle, paths.n, paths.n + 1)


def resolves_to(name, this, angle, paths, r):
    """r (an Opt[Path] term) is Resolve(name, this, angle, paths)"""
    cs, n = cands(this, angle, paths)
    i, j = z3.Ints("rs!i rs!j")
    cand = lambda k: F.abspath(F.join(cs[k], name))     # noqa: E731
    srt = OPATH.sort()
    none_case = z3.And(srt.is_none(r), z3.ForAll([j], z3.Implies(z3.And(0 <= j, j < n), z3.Not(F.isfile(cand(j))))))
    some_case = z3.Exists([i], z3.And(0 <= i, i < n, F.isfile(cand(i)), r == srt.some(cand(i)),
                                      z3.ForAll([j], z3.Implies(z3.And(0 <= j, j < i), z3.Not(F.isfile(cand(j)))))))
    return z3.Or(none_case, some_case)


def memo_valid(memo, paths):
    """every cached answer is the resolution of its own key under the current search path"""
    if SPELLING_KEY:
        n = z3.Const("mv!n", PATH.sort())
        t = z3.Const("mv!t", PATH.sort())
        a = z3.Bool("mv!a")
        return z3.ForAll([n], z3.Implies(memo.dom[n], z3.Exists([t, a], resolves_to(n, t, a, paths, z3.Select(memo.valarr, n)))))
    k = z3.Const("mv!k", KEY.sort())
    return z3.ForAll([k], z3.Implies(memo.dom[k],
                                     resolves_to(KEY.field(k, 0), KEY.field(k, 1), KEY.field(k, 2), paths,
                                                 z3.Select(memo.valarr, k))))


f = contract("codebasin.platform:Platform.find_include_file", props=["C04", "C18"])
f.param("self", PLATFORM).param("filename", PATH).param("this_path", PATH).param("is_system_include", BOOL)
f.modifies = ["self.found_incl"]


@f.requires
def _(A):
    F.install_axioms()
    return [("memo-valid", memo_valid(A.self.found_incl, A.self._include_paths))]


@f.ensures
def _(A, R):
    r = ops.coerce(R.st, R.raw_result, OPATH)
    return [
        ("result==first-existing-candidate-in-search-order",
         resolves_to(A.filename.t, A.this_path.t, A.is_system_include.t, A.self._include_paths, r.t)),
        # with the clause above and `requires memo-valid` this re-establishes memo-valid
        # (lemma memo-update-preserves-validity below)
        ("memo-afterwards==memo[key:=result]-or-unchanged-on-a-hit", _memo_update(A, R, r)),
        ("search-path-unchanged", R.new.self._include_paths.eq(A.self._include_paths)),
    ]


def _memo_update(A, R, r):
    old, new = A.self.found_incl, R.new.self.found_incl
    key = KEY.pack([A.filename, A.this_path, A.is_system_include]).t
    upd = z3.And(new.dom == z3.Store(old.dom, key, z3.BoolVal(True)), new.valarr == z3.Store(old.valarr, key, r.t))
    hit = z3.And(old.dom[key], old.valarr[key] == r.t, new.dom == old.dom, new.valarr == old.valarr)
    return z3.Or(hit, upd)


@lemma("memo-update-preserves-validity", props=["C04"])
def _():
    """memo-valid(m) and Resolve(key)==r  ==>  memo-valid(m[key:=r]); Resolve abstract"""
    Res = z3.Function("ResolvesTo", KEY.sort(), OPATH.sort(), z3.BoolSort())
    dom = z3.Const("lm!dom", z3.ArraySort(KEY.sort(), z3.BoolSort()))
    val = z3.Const("lm!val", z3.ArraySort(KEY.sort(), OPATH.sort()))
    key = z3.Const("lm!key", KEY.sort())
    r = z3.Const("lm!r", OPATH.sort())
    k = z3.Const("lm!k", KEY.sort())
    valid = lambda d, v: z3.ForAll([k], z3.Implies(d[k], Res(k, v[k])))     # noqa: E731
    hyps = [valid(dom, val), Res(key, r)]
    return [("valid(m[key:=r])", hyps, valid(z3.Store(dom, key, z3.BoolVal(True)), z3.Store(val, key, r)))]


def _loop_inv(L):
    name = L.args.filename.t
    j = z3.Int("li!j")
    return [("no-earlier-candidate-is-a-file",
             z3.ForAll([j], z3.Implies(z3.And(0 <= j, j < L.i),
                                       z3.Not(F.isfile(F.abspath(F.join(L.seq.arr[j], name)))))))]


f.loop(0, LoopSpec(_loop_inv))

# ---------------------------------------------------------- once-list
s = contract("codebasin.platform:Platform.add_include_to_skip", props=["C04"])
s.param("self", PLATFORM).param("fn", PATH)
s.modifies = ["self._skip_includes"]


@s.ensures
def _(A, R):
    x = z3.Const("sk!x", PATH.sort())
    old, new = A.self._skip_includes, R.new.self._skip_includes
    return [("once-list==old+{fn}",
             z3.ForAll([x], new.has(x) == z3.Or(old.has(x), x == A.fn.t)))]


p = contract("codebasin.platform:Platform.process_include", props=["C04"])
p.param("self", PLATFORM).param("fn", PATH)


@p.ensures
def _(A, R):
    return [("process-iff-not-on-once-list",
             R.result.t == z3.Not(A.self._skip_includes.has(A.fn.t)))]


a = contract("codebasin.platform:Platform.add_include_path", props=["C04"])
a.param("self", PLATFORM).param("path", PATH)
a.modifies = ["self._include_paths"]


@a.ensures
def _(A, R):
    return [("appended-in-order", R.new.self._include_paths.eq(A.self._include_paths.append(A.path)))]


UNITS = [
    "codebasin.platform:Platform.find_include_file",
    "codebasin.platform:Platform.add_include_to_skip",
    "codebasin.platform:Platform.process_include",
    "codebasin.platform:Platform.add_include_path",
]

ASSUMPTIONS = [
    "A4 static file system; os.path.join/abspath/isfile are pure functions/predicates of the path name",
    "include names, directories and resolved files are values of one abstract Path sort",
]
NOT_COVERED = [
    "IncludeNode.evaluate_for_platform / finder.find (call-site obligations for attribution, -include ordering): see evidence of later rounds",
    "macro state flowing in and out of the header is the platform object's identity (not proved here)",
]
EXPLANATION = ("Platform.find_include_file is proved to return the first existing candidate in compiler search order "
               "independently of the memo's history, under the memo invariant it re-establishes itself.")
