"""pyvc.state -- execution state, outcomes, obligations, context."""
import itertools
import z3

from .values import *  # noqa


class Unsupported(Exception):
    """construct outside the verified subset -> the unit is undecided (exit 2)"""


class Exc:
    """a raised Python exception as an evaluation result"""

    def __init__(self, name, line=None, info=None):
        self.name, self.line, self.info = name, line, info

    def __repr__(self):
        return f"Exc({self.name}@{self.line})"


class Outcome:
    pass


class Normal(Outcome):
    pass


class Return(Outcome):
    def __init__(self, value):
        self.value = value


class Raise(Outcome):
    def __init__(self, exc):
        self.exc = exc


class Break(Outcome):
    pass


class Continue(Outcome):
    pass


NORMAL = Normal()


class HeapObj:
    __slots__ = ("k", "cls", "val", "fields")

    def __init__(self, k, cls=None, val=None, fields=None):
        self.k, self.cls, self.val, self.fields = k, cls, val, fields

    def copy(self):
        return HeapObj(self.k, self.cls, self.val, dict(self.fields) if self.fields is not None else None)


class State:
    def __init__(self):
        self.env = {}
        self.frames = []        # saved caller envs
        self.heap = {}
        self.pc = []
        self.ghost = {}
        self.closure_envs = {}  # id -> env dict shared by reference inside one path

    def fork(self):
        s = State()
        # closures capture env dicts by reference; keep identity consistent per path
        mapping = {}

        def cp(env):
            if id(env) not in mapping:
                mapping[id(env)] = dict(env)
            return mapping[id(env)]
        s.env = cp(self.env)
        s.frames = [cp(e) for e in self.frames]
        s.heap = {k: v.copy() for k, v in self.heap.items()}
        s.pc = list(self.pc)
        s.ghost = dict(self.ghost)
        s._envmap = mapping
        for env in list(mapping.values()):
            if "$closure" in env:
                env["$closure"] = cp(env["$closure"])
        # rewrite closure references
        for env in list(mapping.values()):
            for k, v in list(env.items()):
                if isinstance(v, VFunc) and v.what == "closure":
                    fi, cenv = v.payload
                    env[k] = VFunc("closure", (fi, cp(cenv)), v.self_val)
        return s

    def assume(self, f):
        self.pc.append(f)

    def alloc(self, obj):
        oid = next(_oid)
        self.heap[oid] = obj
        return VObj(oid)


_oid = itertools.count(1)


class Obligation:
    def __init__(self, name, hyps, goal, kind, line=None, props=None, unit=None):
        self.name, self.hyps, self.goal = name, hyps, goal
        self.kind, self.line, self.props, self.unit = kind, line, props, unit
        self.status = None      # 'unsat' (discharged) | 'sat' | 'unknown'
        self.solver = None
        self.time = 0.0
        self.detail = ""
        self.smt2 = None


class Ctx:
    def __init__(self, index):
        self.index = index
        self.counter = itertools.count()
        self.obligations = []
        self.inlined = set()
        self.stub_uses = set()
        self.contract_uses = set()
        self.notes = []
        self.unit = None
        self.names = {}
        self.extra_hyps = []

    def fresh_name(self, hint):
        return f"{hint}!{next(self.counter)}"

    def oblige(self, name, st, goal, kind, line=None, props=None):
        base = name
        n = self.names.get(base, 0)
        self.names[base] = n + 1
        if n:
            name = f"{base}/path{n}"
        ob = Obligation(name, list(st.pc) + list(self.extra_hyps), goal, kind, line, props, self.unit)
        self.obligations.append(ob)
        return ob
