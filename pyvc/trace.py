"""pyvc.trace -- a ghost trace of calls to opaque callees.

Orchestration code (finder.find, IncludeNode.evaluate_for_platform ...) is
specified by the sequence of calls it makes on objects whose behaviour is
owned by other contracts.  Handlers of opaque callees append EVENT records to
a ghost list that lives in a heap cell, so that loops havoc and constrain it
like any other list."""
import z3

from .values import *  # noqa
from .state import HeapObj
from .fsmodel import PATH

OBJ = Atom("Obj")            # identity of an abstract object (platform, state ...)
MAC = Atom("MacroVal")
OPATH = Opt(PATH)
EVENT = TupleKey("event", [("kind", INT), ("obj", OBJ), ("path", PATH), ("path2", PATH), ("macro", MAC),
                           ("res", OPATH), ("flag", BOOL)])
_NOOBJ = z3.Const("noobj", OBJ.sort())
_NOPATH = z3.Const("nopath", PATH.sort())
_NOMAC = z3.Const("nomacro", MAC.sort())


def mk(kind, obj=None, path=None, path2=None, macro=None, res=None, flag=None):
    return EVENT.sort().mk(z3.IntVal(kind), obj if obj is not None else _NOOBJ,
                           path if path is not None else _NOPATH, path2 if path2 is not None else _NOPATH,
                           macro if macro is not None else _NOMAC,
                           res if res is not None else OPATH.sort().none,
                           flag if flag is not None else z3.BoolVal(False))


def field(ev, name):
    i = [n for n, _ in EVENT.fields].index(name)
    return EVENT.field(ev, i)


def cell(st):
    c = st.ghost.get("trace_cell")
    if c is None:
        c = st.alloc(HeapObj("cell", val=VSeq.of(EVENT, [])))
        st.ghost["trace_cell"] = c
    return c


def init_symbolic(ctx, st):
    """start from an arbitrary earlier trace (the unit runs in the middle of a computation)"""
    v = SeqOf(EVENT).fresh(ctx, "trace0")
    st.assume(v.n >= 0)
    c = st.alloc(HeapObj("cell", val=v))
    st.ghost["trace_cell"] = c
    return c


def value(st):
    return st.heap[cell(st).oid].val


def emit(st, ev):
    c = cell(st)
    st.heap[c.oid].val = st.heap[c.oid].val.append(VAtom(EVENT, ev))
