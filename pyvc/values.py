"""
pyvc.values -- kinds (static types declared by contracts) and symbolic values.

Every symbolic value is a small Python wrapper around one z3 term (two for
maps).  Python constants are wrapped too; z3's simplifier recovers
concreteness where the executor needs it (branch folding).

Model (DESIGN 2.3):
  int            -> Int (mathematical, exact for Python)
  bool           -> Bool
  float          -> datatype Float = NaN | Fin(Real)   (exact reals, A2)
  str            -> String
  atoms          -> uninterpreted sorts (platform names, paths, digests ...)
  set/frozenset  -> Array(E, Bool)
  dict           -> (dom: Array(K,Bool), val: Array(K,V))
  list/tuple     -> Seq(E)   (plus, when the length is concrete, the Python
                    list of element values)
  Optional[T]    -> datatype Opt_T = None | Some(T)
"""
import z3

# --------------------------------------------------------------------------
# sorts

_atom_sorts = {}
_opt_sorts = {}


def _float_sort():
    global _FLOAT
    try:
        return _FLOAT
    except NameError:
        d = z3.Datatype("Float")
        d.declare("NaN")
        d.declare("Fin", ("fval", z3.RealSort()))
        _FLOAT = d.create()
        return _FLOAT


class Kind:
    name = "?"

    def sort(self):
        raise NotImplementedError(self.name)

    def fresh(self, ctx, hint):
        return self.wrap(z3.Const(ctx.fresh_name(hint), self.sort()))

    def wrap(self, term):
        raise NotImplementedError(self.name)

    def wf(self, v):
        """well-formedness facts assumed for a fresh value of this kind"""
        return []

    def __repr__(self):
        return self.name

    def __eq__(self, other):
        return isinstance(other, Kind) and self.name == other.name

    def __hash__(self):
        return hash(self.name)


class _Int(Kind):
    name = "int"

    def sort(self):
        return z3.IntSort()

    def wrap(self, t):
        return VInt(t)


class _Bool(Kind):
    name = "bool"

    def sort(self):
        return z3.BoolSort()

    def wrap(self, t):
        return VBool(t)


class _Float(Kind):
    name = "float"

    def sort(self):
        return _float_sort()

    def wrap(self, t):
        return VFloat(t)


class _Str(Kind):
    name = "str"

    def sort(self):
        return z3.StringSort()

    def wrap(self, t):
        return VStr(t)


class _NoneK(Kind):
    name = "None"

    def fresh(self, ctx, hint):
        return VNone()


INT, BOOL, FLOAT, STR, NONE = _Int(), _Bool(), _Float(), _Str(), _NoneK()


class Atom(Kind):
    """An uninterpreted sort."""

    def __init__(self, name):
        self.name = name

    def sort(self):
        if self.name not in _atom_sorts:
            _atom_sorts[self.name] = z3.DeclareSort(self.name)
        return _atom_sorts[self.name]

    def wrap(self, t):
        return VAtom(self, t)


class SetOf(Kind):
    def __init__(self, elem):
        self.elem = elem
        self.name = f"set[{elem.name}]"

    def sort(self):
        return z3.ArraySort(self.elem.sort(), z3.BoolSort())

    def wrap(self, t):
        return VSet(self.elem, t)

    def wf(self, v):
        from . import bigop
        return [bigop.fin(v.t)]


_list_sorts = {}


def _list_sort(elem):
    key = elem.name
    if key not in _list_sorts:
        m = _mangle(key)
        d = z3.Datatype("List_" + m)
        d.declare("mklist_" + m, ("llen_" + m, z3.IntSort()), ("larr_" + m, z3.ArraySort(z3.IntSort(), elem.sort())))
        srt = d.create()
        srt.mklist = srt.constructor(0)
        srt.llen = srt.accessor(0, 0)
        srt.larr = srt.accessor(0, 1)
        _list_sorts[key] = srt
    return _list_sorts[key]


class SeqOf(Kind):
    """Python list/tuple of a single element kind: (length, Array(Int, E)).
    Stored inside other values as one datatype term List_E = mklist(len, arr);
    list equality is `VSeq.eq` (length + elementwise), never term equality."""

    def __init__(self, elem):
        self.elem = elem
        self.name = f"seq[{elem.name}]"

    def sort(self):
        return _list_sort(self.elem)

    def wrap(self, t):
        srt = self.sort()
        return VSeq(self.elem, srt.larr(t), srt.llen(t))

    def fresh(self, ctx, hint):
        n = ctx.fresh_name(hint)
        return VSeq(self.elem, z3.Const(n + "!arr", z3.ArraySort(z3.IntSort(), self.elem.sort())),
                    z3.Const(n + "!len", z3.IntSort()))

    def wf(self, v):
        return [v.n >= 0]


class MapOf(Kind):
    def __init__(self, key, val):
        self.key, self.val = key, val
        self.name = f"map[{key.name},{val.name}]"

    def fresh(self, ctx, hint):
        n = ctx.fresh_name(hint)
        dom = z3.Const(n + "!dom", z3.ArraySort(self.key.sort(), z3.BoolSort()))
        val = z3.Const(n + "!val", z3.ArraySort(self.key.sort(), self.val.sort()))
        return VMap(self.key, self.val, dom, val)

    def wf(self, v):
        from . import bigop
        return [bigop.fin(v.dom)]


class DefaultMapOf(MapOf):
    """collections.defaultdict(factory): missing keys read as `default` and are inserted"""

    def __init__(self, key, val, default):
        super().__init__(key, val)
        self.default = default
        self.name = "default" + self.name

    def fresh(self, ctx, hint):
        m = super().fresh(ctx, hint)
        m.default = self.default
        return m


class Opt(Kind):
    def __init__(self, inner):
        self.inner = inner
        self.name = f"opt[{inner.name}]"

    def sort(self):
        if self.name not in _opt_sorts:
            m = _mangle(self.inner.name)
            d = z3.Datatype("Opt_" + m)
            d.declare("none_" + m)
            d.declare("some_" + m, ("get_" + m, self.inner.sort()))
            srt = d.create()
            # constructor names are unique per sort (SMT-LIB text must be unambiguous);
            # Python-side aliases keep the short names
            srt.none = srt.constructor(0)()
            srt.some = srt.constructor(1)
            srt.is_none = srt.recognizer(0)
            srt.get = srt.accessor(1, 0)
            _opt_sorts[self.name] = srt
        return _opt_sorts[self.name]

    def wrap(self, t):
        return VOpt(self, t)

    def wf(self, v):
        inner = self.inner.wrap(self.sort().get(v.t))
        return [z3.Implies(z3.Not(v.is_none()), f) for f in self.inner.wf(inner)]


class TupleOf(Kind):
    def __init__(self, *kinds):
        self.kinds = kinds
        self.name = "tuple[" + ",".join(k.name for k in kinds) + "]"

    def fresh(self, ctx, hint):
        return VTuple([k.fresh(ctx, f"{hint}_{i}") for i, k in enumerate(self.kinds)])

    def wf(self, v):
        out = []
        for k, x in zip(self.kinds, v.items):
            out += k.wf(x)
        return out


def _mangle(s):
    return "".join(c if c.isalnum() else "_" for c in s)


# --------------------------------------------------------------------------
# values


class V:
    kind = None


class VInt(V):
    kind = INT

    def __init__(self, t):
        self.t = z3.IntVal(t) if isinstance(t, int) else t

    def __repr__(self):
        return f"VInt({self.t})"


class VBool(V):
    kind = BOOL

    def __init__(self, t):
        self.t = z3.BoolVal(t) if isinstance(t, bool) else t

    def __repr__(self):
        return f"VBool({self.t})"


class VFloat(V):
    kind = FLOAT

    def __init__(self, t):
        self.t = t

    @staticmethod
    def nan():
        return VFloat(_float_sort().NaN)

    @staticmethod
    def fin(real):
        return VFloat(_float_sort().Fin(real))

    def is_nan(self):
        return _float_sort().is_NaN(self.t)

    def val(self):
        return _float_sort().fval(self.t)

    def __repr__(self):
        return f"VFloat({self.t})"


class VStr(V):
    kind = STR

    def __init__(self, t):
        self.t = z3.StringVal(t) if isinstance(t, str) else t

    def __repr__(self):
        return f"VStr({self.t})"


class VNone(V):
    kind = NONE

    def __repr__(self):
        return "VNone"


class VAtom(V):
    def __init__(self, kind, t):
        self.kind, self.t = kind, t

    def __repr__(self):
        return f"VAtom({self.t})"


class VSet(V):
    def __init__(self, elem, t):
        self.elem, self.t = elem, t
        self.kind = SetOf(elem)

    @staticmethod
    def empty(elem):
        return VSet(elem, z3.K(elem.sort(), z3.BoolVal(False)))

    def contains(self, x):
        return z3.Select(self.t, x.t)

    def add(self, x):
        return VSet(self.elem, z3.Store(self.t, x.t, z3.BoolVal(True)))

    def is_empty(self):
        return self.t == z3.K(self.elem.sort(), z3.BoolVal(False))

    def __repr__(self):
        return f"VSet({self.t})"


class VEmptySet(V):
    """`set()` / `frozenset()` before its element kind is known."""

    kind = None

    def to(self, elem):
        return VSet.empty(elem)

    def __repr__(self):
        return "VEmptySet"


class VEmptySeq(V):
    """`[]` before its element kind is known."""

    kind = None

    def to(self, elem):
        return VSeq.of(elem, [])

    def __repr__(self):
        return "VEmptySeq"


class VEmptyMap(V):
    kind = None

    def to(self, key, val):
        return VMap(key, val,
                    z3.K(key.sort(), z3.BoolVal(False)),
                    z3.Const("unspec!" + _mangle(key.name + "_" + val.name),
                             z3.ArraySort(key.sort(), val.sort())))

    def __repr__(self):
        return "VEmptyMap"


class VSeq(V):
    """list value: elements arr[0..n-1]; `items` is the Python list of element
    values when the length is concrete"""

    def __init__(self, elem, arr, n, items=None):
        self.elem, self.arr, self.n, self.items = elem, arr, n, items
        self.kind = SeqOf(elem)

    @property
    def t(self):
        return _list_sort(self.elem).mklist(self.n, self.arr)

    @staticmethod
    def base_arr(elem):
        return z3.Const("nil!" + _mangle(elem.name), z3.ArraySort(z3.IntSort(), elem.sort()))

    @staticmethod
    def of(elem, items):
        arr = VSeq.base_arr(elem)
        for i, x in enumerate(items):
            arr = z3.Store(arr, i, x.t)
        return VSeq(elem, arr, z3.IntVal(len(items)), items=list(items))

    def length(self):
        return self.n

    def at(self, i):
        return self.elem.wrap(z3.Select(self.arr, i))

    def append(self, x):
        items = self.items + [x] if self.items is not None else None
        return VSeq(self.elem, z3.Store(self.arr, self.n, x.t), self.n + 1, items)

    def concat(self, o):
        if o.items is not None:
            r = self
            for x in o.items:
                r = r.append(x)
            return r
        i = z3.Int("i!cat")
        arr = z3.Lambda([i], z3.If(i < self.n, self.arr[i], o.arr[i - self.n]))
        return VSeq(self.elem, arr, self.n + o.n)

    def sub(self, lo, ln):
        c_lo = concrete_int(lo)
        if c_lo == 0:
            return VSeq(self.elem, self.arr, ln)
        i = z3.Int("i!sub")
        return VSeq(self.elem, z3.Lambda([i], self.arr[i + lo]), ln)

    def tail_from(self, k):
        """self[k:] for a concrete k >= 0 (canonical term: the same call gives the same term)"""
        if self.items is not None:
            return VSeq.of(self.elem, self.items[k:])
        return self.sub(z3.IntVal(k), z3.If(self.n >= k, self.n - k, 0))

    def set_at(self, i, x):
        return VSeq(self.elem, z3.Store(self.arr, i, x.t), self.n)

    def eq(self, o):
        i = z3.Int("i!seq")
        return z3.And(self.n == o.n,
                      z3.ForAll([i], z3.Implies(z3.And(0 <= i, i < self.n), self.arr[i] == o.arr[i])))

    def has(self, xt):
        """membership of the element term xt"""
        if self.items is not None:
            return z3.Or([y.t == xt for y in self.items] or [z3.BoolVal(False)])
        i = z3.Int("i!mem")
        return z3.Exists([i], z3.And(0 <= i, i < self.n, self.arr[i] == xt))

    def __repr__(self):
        return f"VSeq(n={self.n})"


class VMap(V):
    def __init__(self, key, val, dom, valarr, default=None):
        self.key, self.val, self.dom, self.valarr = key, val, dom, valarr
        self.kind = MapOf(key, val)
        self.default = default        # collections.defaultdict: value for missing keys

    def has(self, k):
        return z3.Select(self.dom, k.t)

    def get(self, k):
        return self.val.wrap(z3.Select(self.valarr, k.t))

    def put(self, k, v):
        return VMap(self.key, self.val,
                    z3.Store(self.dom, k.t, z3.BoolVal(True)),
                    z3.Store(self.valarr, k.t, v.t), self.default)

    def remove(self, k):
        return VMap(self.key, self.val,
                    z3.Store(self.dom, k.t, z3.BoolVal(False)), self.valarr, self.default)

    def __repr__(self):
        return f"VMap({self.dom},{self.valarr})"


class VOpt(V):
    def __init__(self, kind, t):
        self.kind, self.t = kind, t

    def is_none(self):
        return self.kind.sort().is_none(self.t)

    def get(self):
        return self.kind.inner.wrap(self.kind.sort().get(self.t))

    @staticmethod
    def none(kind):
        return VOpt(kind, kind.sort().none)

    @staticmethod
    def some(kind, v):
        return VOpt(kind, kind.sort().some(v.t))

    def __repr__(self):
        return f"VOpt({self.t})"


class VTuple(V):
    def __init__(self, items):
        self.items = list(items)
        self.kind = TupleOf(*[getattr(x, "kind", None) or NONE for x in self.items])

    def __repr__(self):
        return f"VTuple({self.items})"


class VObj(V):
    """Reference to a concrete-shape heap object held in State.heap."""

    def __init__(self, oid):
        self.oid = oid
        self.kind = None

    def __repr__(self):
        return f"VObj(#{self.oid})"


class VFunc(V):
    """A callable known to the executor (function under contract, closure,
    bound method, stub)."""

    def __init__(self, what, payload=None, self_val=None):
        self.what, self.payload, self.self_val = what, payload, self_val
        self.kind = None

    def __repr__(self):
        return f"VFunc({self.what},{self.payload})"


class VComp(V):
    """A lazily evaluated comprehension: elements elem(x) for x ranging over
    `bound` constants satisfying `dom`."""

    def __init__(self, bound, dom, elem, over):
        self.bound, self.dom, self.elem, self.over = bound, dom, elem, over
        self.kind = None


def simp(t):
    return z3.simplify(t)


def concrete_bool(t):
    s = z3.simplify(t)
    if z3.is_true(s):
        return True
    if z3.is_false(s):
        return False
    return None


def concrete_int(t):
    s = z3.simplify(t)
    if z3.is_int_value(s):
        return s.as_long()
    return None


def concrete_str(t):
    s = z3.simplify(t)
    if z3.is_string_value(s):
        return s.as_string()
    return None


class TupleKey(Kind):
    """a tuple of single-term kinds packed into one z3 datatype value, so that
    tuples can be dict keys / set elements"""

    def __init__(self, name, fields):
        self.fields = fields                     # [(field name, Kind)]
        self.name = "tk:" + name
        self._sort = None

    def sort(self):
        if self._sort is None:
            d = z3.Datatype("TK_" + _mangle(self.name))
            d.declare("mk_" + _mangle(self.name), *[(f"{_mangle(self.name)}_{n}", k.sort()) for n, k in self.fields])
            self._sort = d.create()
            self._sort.mk = self._sort.constructor(0)
        return self._sort

    def wrap(self, t):
        return VAtom(self, t)

    def pack(self, items):
        return VAtom(self, self.sort().mk(*[x.t for x in items]))

    def field(self, t, i):
        return self.sort().accessor(0, i)(t)


class Abstract(Kind):
    """An object modelled as a value of an uninterpreted sort whose attributes
    are uninterpreted functions of the object (immutable while the function
    under verification runs).  `methods` maps a method name either to
    ("pure", result Kind)  -- a function of the receiver alone -- or to a
    handler(ex, st, recv, pos, kw, node) -> [(state, value|Exc)]."""

    def __init__(self, name, attrs=None, methods=None):
        self.name = name
        self.attrs = attrs or {}
        self.methods = methods or {}

    def sort(self):
        if self.name not in _atom_sorts:
            _atom_sorts[self.name] = z3.DeclareSort(self.name)
        return _atom_sorts[self.name]

    def wrap(self, t):
        return VAtom(self, t)

    def attr_fn(self, a, kind=None):
        kind = kind or self.attrs[a]
        return z3.Function(f"{self.name}.{a}", self.sort(), kind.sort())

    def attr(self, v, a):
        kind = self.attrs[a]
        return kind.wrap(self.attr_fn(a)(v.t))

    def method_fn(self, m):
        spec = self.methods[m]
        return z3.Function(f"{self.name}.{m}()", self.sort(), spec[1].sort())



class TotalMapOf(Kind):
    """an immutable snapshot of a collections.defaultdict: a total function
    key -> value (missing keys read as the factory's empty value)"""

    def __init__(self, key, val):
        self.key, self.val = key, val
        self.name = f"total[{key.name},{val.name}]"

    def sort(self):
        return z3.ArraySort(self.key.sort(), self.val.sort())

    def wrap(self, t):
        return VTotalMap(self.key, self.val, t)


class VTotalMap(V):
    def __init__(self, key, val, t):
        self.key, self.val, self.t = key, val, t
        self.kind = TotalMapOf(key, val)

    def get(self, k):
        return self.val.wrap(z3.Select(self.t, k.t))

    def put(self, k, v):
        return VTotalMap(self.key, self.val, z3.Store(self.t, k.t, v.t))


class VEmptyDefault(V):
    """collections.defaultdict(factory) before its kinds are known"""
    kind = None

    def __init__(self, factory):
        self.factory = factory
