#!/usr/bin/env python3
"""tools/run_seeded.py [ids...] -- apply every seeded change to /repo, run the related quick checks,
record which check catches it in seeded/<id>/meta.json, and undo the change straight afterwards."""
import json, os, subprocess, sys, glob
V = os.path.dirname(os.path.dirname(os.path.abspath(__file__)))
RELATED = {"C01": ["C01", "C02", "C08"], "C02": ["C02", "C01"], "C03": ["C03", "C01"], "C04": ["C04", "C08"],
           "C05": ["C05"], "C06": ["C06", "C15"], "C07": ["C07"], "C08": ["C08", "C01"], "C09": ["C09"],
           "C10": ["C10", "C08", "C09"], "C11": ["C11", "C13"], "C12": ["C12", "C08"], "C13": ["C13"], "C14": ["C14", "C06"],
           "C15": ["C15", "C06", "C09"], "C16": ["C16"], "C17": ["C17"], "C18": ["C18", "C04", "C13"]}
claimed = [c["property_id"] for c in json.load(open(os.path.join(V, "MANIFEST.json")))["checks"]]
ids = sys.argv[1:] or sorted(x for x in os.listdir(os.path.join(V, "seeded")) if os.path.isdir(os.path.join(V, "seeded", x)))
assert subprocess.run(["git", "-C", "/repo", "status", "--porcelain", "--untracked-files=no"], capture_output=True, text=True).stdout.strip() == "", "/repo not clean"
for sid in ids:
    d = os.path.join(V, "seeded", sid)
    meta = json.load(open(os.path.join(d, "meta.json")))
    prop = meta["breaks_property"]
    r = subprocess.run(["git", "-C", "/repo", "apply", os.path.join(d, "patch.diff")])
    if r.returncode:
        print(sid, "PATCH DOES NOT APPLY"); continue
    results = {}
    try:
        for c in RELATED.get(prop, [prop]):
            if c not in claimed:
                continue
            p = subprocess.run(["./check", c, "--tier", "quick"], cwd=V, capture_output=True, text=True, timeout=1800)
            viol = [l for l in p.stdout.splitlines() if l.startswith("VIOLATION")]
            nd = [l.strip() for l in p.stdout.splitlines() if "not discharged" in l][:4]
            results[c] = {"exit": p.returncode, "violations": viol[:3], "failed_obligations": nd}
    finally:
        subprocess.run(["git", "-C", "/repo", "checkout", "-q", "--", "."])
    caught = [c for c, v in results.items() if v["exit"] == 1]
    meta["checks_run"] = ", ".join(f"./check {c} --tier quick" for c in results)
    meta["caught"] = "yes" if caught else ("undecided" if any(v["exit"] == 2 for v in results.values()) else "no")
    meta["result"] = results
    meta["caught_by"] = caught
    json.dump(meta, open(os.path.join(d, "meta.json"), "w"), indent=1)
    print(sid, meta["caught"], caught, {c: v["exit"] for c, v in results.items()})
