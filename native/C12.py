"""Native bounded stand-in for C12: randomly generated user compiler configurations
(.cbi/config: compilers, alias chains incl. cycles and dangling targets, implicit
options, parser rules with store_split / extend_match / append_const, modes,
passes) crossed with command lines enabling subsets of their flags.  The
expectation is computed from the generator's own description of the configuration
(what each flag is declared to contribute), not from the code under test."""
import itertools
import os
import random
import shutil
import signal
import tempfile

from codebasin import config


class Timeout(Exception):
    pass


def _alarm(sig, frm):
    raise Timeout()


def toml_dump(compilers):
    out = []
    for name, c in compilers.items():
        out.append(f"[compiler.{name}]")
        if "alias_of" in c:
            out.append(f'alias_of = "{c["alias_of"]}"')
        if c.get("options"):
            out.append("options = [" + ", ".join(f'"{o}"' for o in c["options"]) + "]")
        for p in c.get("parser", []):
            out.append(f"[[compiler.{name}.parser]]")
            for k, v in p.items():
                if isinstance(v, list):
                    out.append(f"{k} = [" + ", ".join(f'"{x}"' for x in v) + "]")
                elif isinstance(v, bool):
                    out.append(f"{k} = {'true' if v else 'false'}")
                else:
                    out.append(f'{k} = "{v}"')
        for kind in ("modes", "passes"):
            for m in c.get(kind, []):
                out.append(f"[[compiler.{name}.{kind}]]")
                for k, v in m.items():
                    if isinstance(v, list):
                        out.append(f"{k} = [" + ", ".join(f'"{x}"' for x in v) + "]")
                    else:
                        out.append(f'{k} = "{v}"')
        out.append("")
    return "\n".join(out)


class Emulation:
    proved = False
    role = "bounded stand-in for parse_args / custom actions / _load_compilers (not counted as proved)"

    def bound(self, tier):
        n = 60 if tier == "quick" else 1200
        m = 40 if tier == "quick" else 600
        return (f"{n} seeded random user configurations x 3 command lines each, all alias graphs over 3 names (chains, cycles, "
                f"dangling), and {m} seeded user configurations that EXTEND a built-in compiler (options, a new mode) x 2 command lines")

    def inputs(self, tier, seed):
        # alias graphs: every function {a,b,c} -> {a,b,c,missing,None}
        names = ["ca", "cb", "cc"]
        for tgt in itertools.product([None, "ca", "cb", "cc", "nope"], repeat=3):
            yield {"kind": "alias", "targets": list(tgt)}
        for i in range(60 if tier == "quick" else 1200):
            yield {"kind": "config", "seed": seed * 65537 + i}
        for i in range(40 if tier == "quick" else 600):
            yield {"kind": "extend", "seed": seed * 65537 + i}
        for i in range(6 if tier == "quick" else 40):
            yield {"kind": "modeorder", "seed": seed * 65537 + i}

    def nontrivial(self, inp):
        return True

    # ------------------------------------------------------------------
    def in_dir(self, compilers, fn):
        d = tempfile.mkdtemp(prefix="cbi_c12_")
        cwd = os.getcwd()
        try:
            if compilers is not None:
                os.makedirs(os.path.join(d, ".cbi"))
                with open(os.path.join(d, ".cbi", "config"), "w") as fh:
                    fh.write(toml_dump(compilers))
            os.chdir(d)
            config._compilers = None
            return fn()
        finally:
            os.chdir(cwd)
            config._compilers = None
            shutil.rmtree(d, ignore_errors=True)

    def check(self, inp):
        if inp["kind"] == "alias":
            return self.check_alias(inp)
        if inp["kind"] == "extend":
            return self.check_extend(inp)
        if inp["kind"] == "modeorder":
            return self.check_modeorder(inp)
        return self.check_config(inp)

    def check_modeorder(self, inp):
        """the contributions of several modes arrive in command-line order (include paths and -include files are ordered
        lists; the first definition of a macro wins), for every order of the flags and in every process"""
        rng = random.Random(inp["seed"])
        names = rng.sample(["alpha", "beta", "gamma", "delta", "omega", "zeta"], 3)
        modes = [{"name": n, "defines": [f"BACKEND={i}"], "include_paths": [f"inc_{n}"], "include_files": [f"{n}.h"]} for i, n in enumerate(names)]
        parser = [{"flags": ["-m" + n], "action": "append_const", "dest": "modes", "const": n} for n in names]
        comp = {"mycc": {"parser": parser, "modes": modes}}
        orders = [list(p) for p in itertools.permutations(names)]

        def run():
            out = []
            for order in orders:
                cfgs = config.ArgumentParser("mycc").parse_args(["-m" + n for n in order])
                d = [c for c in cfgs if c.pass_name == "default"][0]
                out.append((list(d.include_paths), list(d.include_files), list(d.defines)))
            return out
        got = self.in_dir(comp, run)
        for order, (ip, inc, df) in zip(orders, got):
            want = ([f"inc_{n}" for n in order], [f"{n}.h" for n in order], [f"BACKEND={names.index(n)}" for n in order])
            if (ip, inc, df) != want:
                return {"argv": ["mycc"] + ["-m" + n for n in order], "expected": f"contributions in command-line order {want}",
                        "observed": (ip, inc, df), "klass": "emulation:mode-contributions-out-of-command-line-order"}
        return None

    BUILTIN_FLAGS = {"nvcc": [["-fopenmp"], ["--gpu-architecture", "sm_80"], ["--gpu-code", "sm_75"], ["-gencode", "arch=compute_90,code=sm_90"]],
                     "gcc": [["-fopenmp"]], "g++": [["-fopenmp"]], "clang": [["-fopenmp"]], "clang++": [["-fopenmp"]],
                     "icx": [["-fopenmp"], ["-fsycl"], ["-fsycl-targets=spir64_gen,spir64"]],
                     "icpx": [["-fopenmp"], ["-fsycl"], ["-fsycl-targets=spir64_x86_64"]]}
    REAL = {"g++": "gcc", "clang++": "clang", "icpx": "icx"}

    def check_extend(self, inp):
        """a user configuration EXTENDS a built-in compiler: its implicit options act as if appended to every command
        line (next to the built-in ones), a mode it adds works next to the built-in modes"""
        rng = random.Random(inp["seed"])
        invoked = rng.choice(sorted(self.BUILTIN_FLAGS))
        real = self.REAL.get(invoked, invoked)
        uopts = ["-DUSEROPT"] + rng.sample(["-DUSER2=2", "-I/uopt", "-fopenmp"], rng.randint(0, 2))
        with_mode = rng.random() < 0.5
        comp = {real: {"options": uopts}}
        if with_mode:
            comp[real]["parser"] = [{"flags": ["-fumode"], "action": "append_const", "dest": "modes", "const": "umode"}]
            comp[real]["modes"] = [{"name": "umode", "defines": ["UMODE"], "include_paths": ["/umode"]}]
        cmds = []
        for _ in range(2):
            argv = ["-DUSER", "-I/u"]
            for fl in self.BUILTIN_FLAGS[invoked]:
                if rng.random() < 0.5:
                    argv += fl
            cmds.append(argv)

        def run(extra_of):
            def go():
                res = []
                for argv in cmds:
                    try:
                        cfgs = config.ArgumentParser("/opt/bin/" + invoked).parse_args(list(argv) + extra_of(argv))
                        res.append({c.pass_name: (sorted(c.defines), sorted(c.include_paths), sorted(c.include_files)) for c in cfgs})
                    except Exception as e:      # noqa: BLE001
                        res.append(f"raised {type(e).__name__}: {e}")
                return res
            return go
        base = self.in_dir(None, run(lambda argv: list(uopts)))                 # no user file, options on the command line
        user = self.in_dir(comp, run(lambda argv: []))                          # the same options as implicit user options
        for argv, b, u in zip(cmds, base, user):
            if b != u:
                return {"argv": [invoked] + argv, "expected": f"as with {uopts} appended to the command line: {b}", "observed": u,
                        "klass": "emulation:user-options-extend-the-built-in-compiler", "config": toml_dump(comp)}
        if with_mode and rng.random() < 0.4:
            # the user rule re-uses a flag the built-in definition already has: the flag must keep working (the user's
            # mode applies; no exception for any command of that compiler)
            comp2 = {real: {"parser": [{"flags": ["-fopenmp"], "action": "append_const", "dest": "modes", "const": "umode"}],
                            "modes": [{"name": "umode", "defines": ["UMODE"]}]}}

            def go2():
                out = []
                for argv in (["-DUSER", "-fopenmp", "x.c"], ["-DUSER", "-c", "x.c"]):
                    try:
                        cfgs = config.ArgumentParser("/opt/bin/" + invoked).parse_args(list(argv))
                        out.append(sorted(x for c in cfgs if c.pass_name == "default" for x in c.defines))
                    except Exception as e:      # noqa: BLE001
                        out.append(f"raised {type(e).__name__}: {e}")
                return out
            r = self.in_dir(comp2, go2)
            if isinstance(r[0], str) or isinstance(r[1], str) or "UMODE" not in r[0] or "UMODE" in r[1]:
                return {"argv": [invoked, "-fopenmp"], "expected": "the user's rule for -fopenmp applies (UMODE defined with the flag, not without); no exception",
                        "observed": r, "klass": "emulation:user-rule-for-an-existing-flag", "config": toml_dump(comp2)}
        if with_mode:
            usermode = self.in_dir(comp, run(lambda argv: ["-fumode"]))
            for argv, u, um in zip(cmds, user, usermode):
                if isinstance(u, str) or isinstance(um, str):
                    if u != um:
                        return {"argv": [invoked] + argv + ["-fumode"], "expected": "no exception", "observed": um,
                                "klass": "emulation:user-mode-on-a-built-in-compiler"}
                    continue
                want = {pn: ((sorted(d + ["UMODE"]), sorted(i + ["/umode"]), f) if pn == "default" else (d, i, f))
                        for pn, (d, i, f) in u.items()}
                if um != want:
                    return {"argv": [invoked] + argv + ["-fumode"], "expected": want, "observed": um,
                            "klass": "emulation:user-mode-on-a-built-in-compiler", "config": toml_dump(comp)}
        return None

    def check_alias(self, inp):
        names = ["ca", "cb", "cc"]
        comp = {}
        for n, t in zip(names, inp["targets"]):
            comp[n] = {"alias_of": t} if t else {"options": ["-D" + n.upper()]}
        # expected resolution by following the declared targets
        def resolve(n):
            seen = []
            while True:
                if n not in comp:
                    return "dangling"
                if "alias_of" not in comp[n]:
                    return n
                seen.append(n)
                n = comp[n]["alias_of"]
                if n in seen:
                    return "loop"

        def run():
            res = {}
            old = signal.signal(signal.SIGALRM, _alarm)
            try:
                for n in names:
                    signal.alarm(3)
                    try:
                        ap = config.ArgumentParser("/usr/bin/" + n)
                        cfgs = ap.parse_args(["-DX"])
                        res[n] = sorted(cfgs[0].defines) if cfgs else None
                    except Timeout:
                        res[n] = "hangs"
                    except Exception as e:      # noqa: BLE001
                        res[n] = f"raised {type(e).__name__}"
                    finally:
                        signal.alarm(0)
            finally:
                signal.signal(signal.SIGALRM, old)
            return res
        got = self.in_dir(comp, run)
        for n in names:
            r = resolve(n)
            want = ["X"] if r in ("loop", "dangling") else sorted(["X", r.upper()])
            if got[n] != want:
                return {"expected": {n: want, "resolution": r}, "observed": got[n], "aliases": dict(zip(names, inp["targets"])),
                        "klass": "alias-resolution" + (":hangs" if got[n] == "hangs" else "")}
        return None

    def check_config(self, inp):
        rng = random.Random(inp["seed"])
        name = "mycc"
        modes = [{"name": f"m{i}", "defines": [f"M{i}"], "include_paths": [f"/mode{i}"] if rng.random() < 0.5 else [],
                  "include_files": [f"m{i}.h"] if rng.random() < 0.3 else []} for i in range(rng.randint(1, 3))]
        passes = [{"name": f"p-{x}", "defines": [f"P_{x.upper()}"], "modes": [rng.choice(modes)["name"]] if rng.random() < 0.5 else []}
                  for x in ("a", "b", "c")[: rng.randint(1, 3)]]
        pnames = [p["name"][2:] for p in passes]
        parser = []
        for m in modes:
            parser.append({"flags": ["-f" + m["name"]], "action": "append_const", "dest": "modes", "const": m["name"]})
        split_flag = rng.random() < 0.7
        split_default = []
        if split_flag:
            rule = {"flags": ["-fpasses", "--passes"], "action": "store_split", "sep": ",", "format": "p-$value", "dest": "passes"}
            if rng.random() < 0.5:
                rule["default"] = [f"p-{pnames[-1]}"]          # applies only when the flag (in either spelling) is absent
            parser.append(rule)
            split_default = rule.get("default", [])
        match_flag = rng.random() < 0.7
        override = rng.random() < 0.5
        default = [f"p-{pnames[0]}"] if rng.random() < 0.5 else []
        if match_flag:
            rule = {"flags": ["--arch"], "action": "extend_match", "pattern": "[a-c]", "format": "p-$value", "dest": "passes",
                    "override": override}
            if default:
                rule["default"] = default
            parser.append(rule)
        implicit = ["-DIMPLICIT"] + (["-f" + modes[0]["name"]] if rng.random() < 0.3 else [])
        comp = {name: {"options": implicit, "parser": parser, "modes": modes, "passes": passes}}
        if rng.random() < 0.4:
            comp["wrap"] = {"alias_of": name}
        cmdlines = []
        for _ in range(3):
            argv, want_modes, sel = ["-DUSER", "-I/u"], set(), None
            for m in modes:
                if rng.random() < 0.4:
                    argv.append("-f" + m["name"])
                    want_modes.add(m["name"])
            if implicit[1:]:
                want_modes.add(modes[0]["name"])
            split_sel = None
            if split_flag and rng.random() < 0.5:
                vals = rng.sample(pnames, rng.randint(1, len(pnames)))
                argv.append(rng.choice(["-fpasses=", "--passes="]) + ",".join(vals))
                split_sel = {"p-" + v for v in vals}
            match_uses = []
            if match_flag:
                for _ in range(rng.choice([0, 1, 1, 2])):
                    v = rng.choice(pnames + ["z"])
                    argv += ["--arch", v]
                    match_uses.append(v)
            cmdlines.append((argv, want_modes, split_sel, match_uses))

        def run():
            res = []
            for argv, *_ in cmdlines:
                try:
                    ap = config.ArgumentParser("wrap" if "wrap" in comp else name)
                    cfgs = ap.parse_args(list(argv))
                    res.append({c.pass_name: (list(c.defines), list(c.include_paths), list(c.include_files)) for c in cfgs})
                except Exception as e:      # noqa: BLE001
                    res.append(f"raised {type(e).__name__}: {e}")
            return res
        got = self.in_dir(comp, run)
        declared = {p["name"]: p for p in passes}
        mode_of = {m["name"]: m for m in modes}
        for (argv, want_modes, split_sel, match_uses), g in zip(cmdlines, got):
            sel = set(split_sel or ())
            if split_flag and split_sel is None:
                sel |= set(split_default)
            if match_flag:
                vals = [f"p-{v}" for v in match_uses if v in "abc"]
                if override:
                    # the first use replaces the default, later uses add to it
                    sel |= set(vals) if match_uses else set(default)
                else:
                    sel |= set(default) | set(vals)
            exp = {}
            for pn in {"default"} | sel:
                if pn != "default" and pn not in declared:
                    continue
                d, i, f = ["USER", "IMPLICIT"], ["/u"], []
                ms = sorted(want_modes) if pn == "default" else []
                if pn != "default":
                    d += declared[pn]["defines"]
                    ms = declared[pn].get("modes", [])
                exp[pn] = (d, i, f, ms)
            if isinstance(g, str):
                return {"argv": argv, "expected": sorted(exp), "observed": g, "klass": "emulation:raises"}
            if set(g) != set(exp):
                return {"argv": argv, "expected": sorted(exp), "observed": sorted(g), "klass": "emulation:passes", "config": toml_dump(comp)}
            for pn, (d, i, f, ms) in exp.items():
                gd, gi, gf = g[pn]
                wd = d + [x for m in ms for x in mode_of[m]["defines"]]
                wi = i + [x for m in ms for x in mode_of[m]["include_paths"]]
                wf = f + [x for m in ms for x in mode_of[m]["include_files"]]
                if (sorted(gd), sorted(gi), sorted(gf)) != (sorted(wd), sorted(wi), sorted(wf)) or gd[:1] != ["USER"]:
                    return {"argv": argv, "pass": pn, "expected": (wd, wi, wf), "observed": (gd, gi, gf),
                            "klass": "emulation:lists", "config": toml_dump(comp)}
        return None


from native.systarget import SysTarget      # noqa: E402

TARGETS = {"codebasin.config:ArgumentParser.parse_args": Emulation(),
           # "a line is attributed to a platform if any pass of any of its commands uses it": several commands per platform,
           # forced includes, against the reference attribution
           "codebasin.finder:find": SysTarget("commands", ("multi", "forced"), quick_n=120, thorough_n=2000)}


# ---- recorded finding: the first definition of a macro wins (gcc: the last) -----------------------------------------------
from native import recorded as _R      # noqa: E402


def _x_first_definition_wins():
    with _R.tree({"a.c": "#if LEVEL == 2\nint two;\n#else\nint other;\n#endif\n"}) as root:
        used = _R.used_lines(root, [{"file": os.path.join(root, "a.c"), "defines": ["LEVEL=1", "LEVEL=2"], "include_paths": [], "include_files": []}])
    return None if 2 in used.get("a.c", []) else ("line 2 used: `gcc -E -DLEVEL=1 -DLEVEL=2` (e.g. an implicit option appended to the command) prints `int two;`", used)


TARGETS["codebasin.platform:Platform.define#recorded-findings"] = _R.Exhibits([
    ("emulation:first-definition-of-a-macro-wins", "gcc -DLEVEL=1 -DLEVEL=2 -c a.c", _x_first_definition_wins)])
