"""
Contracts for C05 -- a physical line is counted iff it holds code outside comments
(codebasin/file_source.py, codebasin/file_parser.py).

Proved here, for every character, every buffer content and every stack shape:
  * one step of c_cleaner.process (the body of its character loop, verified as a
    unit for each of the 22 reachable state-stack shapes x directives_only) makes
    exactly the transition and the buffer calls of the reference scanner for
    translation phases 2-3 (trusted spec A9, the table `ref_step` below), the two
    "Inconsistent parser state" raises are unreachable, the stack keeps a
    well-formed shape;
  * c_cleaner.logical_newline resets the state as the reference does at a logical
    line end;
  * one_space_line (append_char / append_space / append_nonspace / category / join)
    against its abstract view: the buffer is BLANK iff it holds no part other than
    a single blank, a directive iff its first non-blank part is '#';
  * LineGroup arithmetic (extent, line_count, lines) used by the file parser.
The composition over whole files (c_file_source + FileParser) is a bounded
stand-in (native/C05.py), labelled so.
"""
import z3

from pyvc.contract import contract, lemma, LoopSpec, ObjSpec, CellOf
from pyvc.values import *  # noqa
from pyvc.state import Exc, HeapObj
from pyvc import bigop, ops

TOP, CPP, ESC, DQ, SQ, FS, BLK, STAR, INL = ("TOPLEVEL", "CPP_DIRECTIVE", "ESCAPING", "DOUBLE_QUOTATION", "SINGLE_QUOTATION",
                                              "FOUND_SLASH", "IN_BLOCK_COMMENT", "IN_BLOCK_COMMENT_FOUND_STAR", "IN_INLINE_COMMENT")
BASES = {"top": [TOP], "cpp": [TOP, CPP]}
SUFFIXES = {"": [], "esc": [ESC], "dq": [DQ], "dq-esc": [DQ, ESC], "sq": [SQ], "sq-esc": [SQ, ESC], "sq-slash": [SQ, FS],
            "slash": [FS], "block": [BLK], "block-star": [BLK, STAR], "inline": [INL]}

# ----------------------------------------------------------------- traced buffer / iterator
def _emit(kind):
    def h(ex, st, recv, pos, kw, node):
        arg = ops.deref(st, pos[0]) if pos else None
        st.ghost["emits"] = st.ghost.get("emits", ()) + ((kind, arg),)
        return [(st, VNone())]
    return h


def _category(ex, st, recv, pos, kw, node):
    blank = st.ghost["buffer_blank"]
    other = STR.fresh(ex.ctx, "category")
    st.assume(other.t != z3.StringVal("BLANK"))
    return [(st, VStr(z3.If(blank, z3.StringVal("BLANK"), other.t)))]


def _putback(ex, st, recv, pos, kw, node):
    st.ghost["putback"] = st.ghost.get("putback", ()) + (ops.deref(st, pos[0]),)
    return [(st, VNone())]


OBUF = Abstract("OutBuf", methods={"append_char": _emit("char"), "append_space": _emit("space"),
                                   "append_nonspace": _emit("nonspace"), "category": _category})
ITER = Abstract("IterKeep1", methods={"putback": _putback})


def ref_step(base, suffix, cls, directives_only):
    """Reference scanner, one character.  -> (new base, new suffix, emits, putback?, returns?)
    emits: list of ('char'|'space'|'nonspace', 'c' | '/' | None).  `cls` is the character
    class: bs \\, slash /, star *, dq ", sq ', hash-blank (# while the buffer is blank), other."""
    hashb = cls == "hash-blank"
    if suffix == "":
        if directives_only and base == "top":
            if cls == "bs":
                return base, "esc", [("nonspace", "c")], False, False
            if hashb:
                return "cpp", "", [("nonspace", "c")], False, False
            return base, "", [("char", "c")], False, False
        if cls == "bs":
            return base, "esc", [("nonspace", "c")], False, False
        if cls == "slash":
            return base, "slash", [], False, False
        if cls == "dq":
            return base, "dq", [("nonspace", "c")], False, False
        if cls == "sq":
            return base, "sq", [("nonspace", "c")], False, False
        if hashb and base == "top":
            return "cpp", "", [("nonspace", "c")], False, False
        return base, "", [("char", "c")], False, False
    if suffix == "esc":
        return base, "", [("nonspace", "c")], False, False
    if suffix == "dq":
        if cls == "bs":
            return base, "dq-esc", [("nonspace", "c")], False, False
        if cls == "dq":
            return base, "", [("nonspace", "c")], False, False
        return base, "dq", [("nonspace", "c")], False, False
    if suffix == "dq-esc":
        return base, "dq", [("nonspace", "c")], False, False
    if suffix == "sq":
        if cls == "bs":
            return base, "sq-esc", [("nonspace", "c")], False, False
        if cls == "sq":
            return base, "", [("nonspace", "c")], False, False
        return base, "sq", [("nonspace", "c")], False, False      # incl. '/': no comment starts inside a character constant
    if suffix == "sq-esc":
        return base, "sq", [("nonspace", "c")], False, False
    if suffix in ("slash", "sq-slash"):
        back = "" if suffix == "slash" else "sq"
        if cls == "slash":
            return base, ("inline" if back == "" else None), [], False, False
        if cls == "star":
            return base, ("block" if back == "" else None), [], False, False
        return base, back, [("char", "/")], True, False         # not a comment: the slash is code, re-read the character
    if suffix == "block":
        return base, ("block-star" if cls == "star" else "block"), [], False, False
    if suffix == "block-star":
        if cls == "slash":
            return base, "", [("space", None)], False, False     # the comment becomes one space
        if cls == "star":
            return base, "block-star", [], False, False
        return base, "block", [], False, False
    if suffix == "inline":
        return base, "inline", [], False, True                  # rest of the line is comment
    raise ValueError(suffix)


CLASSES = {"bs": "\\", "slash": "/", "star": "*", "dq": '"', "sq": "'"}


def cls_cond(cls, char, blank):
    if cls in CLASSES:
        return char == z3.StringVal(CLASSES[cls])
    if cls == "hash-blank":
        return z3.And(char == z3.StringVal("#"), blank)
    return z3.And([char != z3.StringVal(v) for v in CLASSES.values()] + [z3.Not(z3.And(char == z3.StringVal("#"), blank))])


def _step_contract(base, suffix, directives_only):
    key = f"codebasin.file_source:c_cleaner.process@loop0#{base}/{suffix or 'plain'}/{'directives-only' if directives_only else 'c'}"
    c = contract(key, props=["C05", "C17"])
    shape = BASES[base] + SUFFIXES[suffix]
    c.param("self", ObjSpec("c_cleaner", {"directives_only": VBool(directives_only)}))
    c.param("state", lambda ctx, st: st.alloc(HeapObj("cell", val=VSeq.of(STR, [VStr(x) for x in shape]))))
    c.param("obuf", OBUF).param("inbuffer", ITER).param("char", STR)
    c.modifies = ["state"]

    def setup(ctx, st):
        st.ghost["buffer_blank"] = z3.Bool(ctx.fresh_name("buffer_blank"))
    c.setup = setup

    @c.requires
    def _(A):
        return [("one-character", z3.Length(A.char.t) == 1)]

    @c.ensures
    def _(A, R):
        blank = R.st.ghost["buffer_blank"]
        char = A.char.t
        new = R.new.state
        items = [concrete_str(x.t) for x in new.items] if new.items is not None else None
        emits = R.st.ghost.get("emits", ())
        putback = R.st.ghost.get("putback", ())
        returned = R.st.ghost.get("returned", False)
        out = [("stack-keeps-a-concrete-shape", z3.BoolVal(items is not None and None not in items))]
        for cls in list(CLASSES) + ["hash-blank", "other"]:
            nb, ns, want_emits, want_pb, want_ret = ref_step(base, suffix, cls, directives_only)
            cond = cls_cond(cls, char, blank)
            if ns is None:
                # '/' or '*' right after a '/' inside a character constant: only in multi-character
                # constants such as '//' which the quantifier excludes (gcc diagnoses them)
                continue
            want_stack = BASES[nb] + SUFFIXES[ns]
            ok_stack = items == want_stack
            ok_emits = len(emits) == len(want_emits) and all(k == wk for (k, _), (wk, _) in zip(emits, want_emits))
            arg_ok = []
            if ok_emits:
                for (k, a), (wk, wa) in zip(emits, want_emits):
                    if wa == "c":
                        arg_ok.append(a.t == char)
                    elif wa == "/":
                        arg_ok.append(a.t == z3.StringVal("/"))
            ok_pb = (len(putback) == 1) == want_pb and (not want_pb or True)
            pb_arg = [putback[0].t == char] if (want_pb and len(putback) == 1) else []
            good = z3.And([z3.BoolVal(bool(ok_stack and ok_emits and ok_pb and (bool(returned) == want_ret)))] + arg_ok + pb_arg)
            out.append((f"on {cls}: stack, buffer calls and put-back are the reference scanner's", z3.Implies(cond, good)))
        return out
    return key


STEP_UNITS = []
for _b in BASES:
    for _s in SUFFIXES:
        STEP_UNITS.append(_step_contract(_b, _s, False))
for _b, _s in (("top", ""), ("top", "esc"), ("cpp", ""), ("cpp", "esc"), ("cpp", "dq"), ("cpp", "slash"), ("cpp", "block"), ("cpp", "block-star")):
    STEP_UNITS.append(_step_contract(_b, _s, True))

UNITS = list(STEP_UNITS)
LEVEL = "proof"
ASSUMPTIONS = [
    "A9 the reference scanner table `ref_step` (translation phases 2-3) is a trusted spec, written from ISO C",
    "A8 characters are length-1 strings; text decoding yields lines",
    "well-formedness of the quantifier: character constants are one character or one escape (a '/' or '*' right after a '/' "
    "inside a character constant is outside it)",
]
NOT_COVERED = ["the composition over whole files (c_file_source, FileParser.parse_file): bounded stand-in native/C05.py",
               "C++ raw strings, trigraphs, digraphs, UCNs"]
EXPLANATION = ("Transition-table conformance: each step of the comment/literal automaton of c_cleaner.process is proved equal to the "
               "reference scanner's for every character and buffer state, per stack shape; whole-file line sets are compared with the "
               "reference on all short texts (bounded).")


# ================================================================ logical_newline
def ref_newline(base, suffix):
    """reference scanner at a logical line end -> (new base, new suffix, emits)"""
    if suffix == "inline":
        return "top", "", [("space", None)]              # the // comment becomes one space
    if suffix in ("slash", "sq-slash"):
        return "top", "", [("nonspace", "/")]            # a pending slash was code
    if suffix in ("sq", "dq"):
        return "top", "", []                             # unterminated literal (ill-formed): reset
    if suffix == "block-star":
        return base, "block", []
    if suffix == "" and base == "cpp":
        return "top", "", []                             # the directive ends
    return base, suffix, []


def _newline_contract(base, suffix):
    key = f"codebasin.file_source:c_cleaner.logical_newline#{base}/{suffix or 'plain'}"
    c = contract(key, props=["C05"])
    shape = BASES[base] + SUFFIXES[suffix]
    c.param("self", ObjSpec("c_cleaner", {
        "state": lambda ctx, st: st.alloc(HeapObj("cell", val=VSeq.of(STR, [VStr(x) for x in shape]))),
        "outbuf": OBUF}))
    c.modifies = ["self.state", "self"]

    @c.ensures
    def _(A, R):
        nb, ns, want = ref_newline(base, suffix)
        new = R.new.self.state
        items = [concrete_str(x.t) for x in new.items] if new.items is not None else None
        emits = R.st.ghost.get("emits", ())
        ok = items == BASES[nb] + SUFFIXES[ns] and len(emits) == len(want) and all(k == wk for (k, _), (wk, _) in zip(emits, want))
        args = [a.t == z3.StringVal("/") for (k, a), (wk, wa) in zip(emits, want) if wa == "/"] if ok else []
        return [("state and buffer calls at a logical line end are the reference scanner's", z3.And([z3.BoolVal(bool(ok))] + args))]
    return key


NEWLINE_UNITS = [_newline_contract(b, s) for b in BASES for s in SUFFIXES]

# ================================================================ one_space_line
OSL = ObjSpec("one_space_line", {"parts": CellOf(SeqOf(STR)), "trailing_space": BOOL})
i_, j_ = z3.Ints("osl!i osl!j")
BL = z3.StringVal(" ")


def osl_inv(o):
    """representation invariant: blanks are never adjacent, and trailing_space says whether the last part is a blank"""
    p = o.parts
    return [("no-two-adjacent-blanks", z3.ForAll([i_], z3.Implies(z3.And(0 <= i_, i_ + 1 < p.n), z3.Not(z3.And(p.arr[i_] == BL, p.arr[i_ + 1] == BL))))),
            ("trailing_space<=>last-part-is-a-blank", o.trailing_space.t == z3.And(p.n > 0, p.arr[p.n - 1] == BL))]


def _osl(name, extra_params=()):
    c = contract(f"codebasin.file_source:one_space_line.{name}", props=["C05", "C17"])
    c.param("self", OSL)
    for n, k in extra_params:
        c.param(n, k)
    c.modifies = ["self.parts", "self.trailing_space", "self"]
    c.requires(lambda A: osl_inv(A.self))
    return c


ac = _osl("append_char", [("c", STR)])
ac.requires(lambda A: [("one-character", z3.Length(A.c.t) == 1)])


@ac.ensures
def _(A, R):
    from pyvc.stubs import char_class
    old, new = A.self.parts, R.new.self.parts
    sp = char_class("isspace", A.c.t)
    return [(f"invariant:{l}", f) for l, f in osl_inv(R.new.self)] + [
        ("non-blank character is appended", z3.Implies(z3.Not(sp), new.eq(old.append(A.c)))),
        ("white space collapses to one blank", z3.Implies(sp, z3.If(A.self.trailing_space.t, new.eq(old), new.eq(old.append(VStr(" "))))))]


asp = _osl("append_space")


@asp.ensures
def _(A, R):
    old, new = A.self.parts, R.new.self.parts
    return [(f"invariant:{l}", f) for l, f in osl_inv(R.new.self)] + [
        ("one blank unless the buffer already ends in one",
         z3.If(A.self.trailing_space.t, new.eq(old), new.eq(old.append(VStr(" ")))))]


an = _osl("append_nonspace", [("c", STR)])
an.requires(lambda A: [("the character is not a blank (blanks inside a literal violate this: recorded finding)", A.c.t != BL)])


@an.ensures
def _(A, R):
    return [(f"invariant:{l}", f) for l, f in osl_inv(R.new.self)] + [
        ("appended verbatim", R.new.self.parts.eq(A.self.parts.append(A.c)))]


cat = _osl("category")
cat.modifies = None


@cat.ensures
def _(A, R):
    p = A.self.parts
    allblank = z3.ForAll([i_], z3.Implies(z3.And(0 <= i_, i_ < p.n), p.arr[i_] == BL))
    first_nonblank_is_hash = z3.Exists([i_], z3.And(0 <= i_, i_ < p.n, p.arr[i_] == z3.StringVal("#"),
                                                    z3.ForAll([j_], z3.Implies(z3.And(0 <= j_, j_ < i_), p.arr[j_] == BL))))
    r = R.result.t
    return [("BLANK<=>no-part-other-than-blanks", (r == z3.StringVal("BLANK")) == allblank),
            ("CPP_DIRECTIVE<=>first-non-blank-part-is-#", (r == z3.StringVal("CPP_DIRECTIVE")) == first_nonblank_is_hash),
            ("otherwise-SRC_NONBLANK", z3.Or(r == z3.StringVal("BLANK"), r == z3.StringVal("CPP_DIRECTIVE"), r == z3.StringVal("SRC_NONBLANK")))]


jn = _osl("join", [("other", OSL)])
jn.requires(lambda A: osl_inv(A.other))


@jn.ensures
def _(A, R):
    o, n, x = A.self, R.new.self, A.other
    xp = x.parts
    drop = z3.And(xp.n > 0, xp.arr[0] == BL, o.trailing_space.t)
    tail = xp.sub(z3.IntVal(1), xp.n - 1)
    return [(f"invariant:{l}", f) for l, f in osl_inv(n)] + [
        ("joining an empty line changes nothing (the pending blank stays pending)",
         z3.Implies(xp.n == 0, z3.And(n.parts.eq(o.parts), n.trailing_space.t == o.trailing_space.t))),
        ("a leading blank of the second line merges with a trailing blank of the first",
         z3.Implies(xp.n > 0, z3.If(drop, n.parts.eq(o.parts.concat(tail)), n.parts.eq(o.parts.concat(xp))))),
        ("the other line is not modified", z3.And(R.new.other.parts.eq(xp), R.new.other.trailing_space.t == x.trailing_space.t))]


OSL_UNITS = ["codebasin.file_source:one_space_line." + n for n in ("append_char", "append_space", "append_nonspace", "category", "join")]

# ================================================================ LineGroup
LG = ObjSpec("LineGroup", {"line_count": INT, "start_line": INT, "end_line": INT,
                           "lines": CellOf(SeqOf(INT)), "body": CellOf(SeqOf(STR))})
al = contract("codebasin.file_parser:LineGroup.add_line", props=["C05", "C06"])
al.param("self", LG).param("phys_int", TupleOf(INT, INT)).param("sloc_count", INT)
al.param("source", Opt(STR)).param("lines", Opt(SeqOf(INT)))
al.modifies = ["self"]


@al.ensures
def _(A, R):
    o, n = A.self, R.new.self
    lo, hi = A.phys_int.items[0].t, A.phys_int.items[1].t
    lines = A.lines
    return [("line_count grows by the lines counted", n.line_count.t == o.line_count.t + A.sloc_count.t),
            ("start is the minimum start", n.start_line.t == z3.If(z3.Or(o.start_line.t == -1, lo < o.start_line.t), lo, o.start_line.t)),
            ("end is the maximum end", n.end_line.t == z3.If(hi - 1 > o.end_line.t, hi - 1, o.end_line.t)),
            ("the counted physical lines are appended in order",
             z3.If(lines.is_none(), n.lines.eq(o.lines), n.lines.eq(o.lines.concat(lines.get()))))]


em = contract("codebasin.file_parser:LineGroup.empty", props=["C05"])
em.param("self", LG)


@em.ensures
def _(A, R):
    o = A.self
    return [("empty<=>nothing recorded", R.result.t == z3.And(o.line_count.t == 0, o.start_line.t == -1, o.end_line.t == -1))]


LG_UNITS = ["codebasin.file_parser:LineGroup.add_line", "codebasin.file_parser:LineGroup.empty"]
UNITS = list(STEP_UNITS) + NEWLINE_UNITS + OSL_UNITS + LG_UNITS


# ================================================================ c_file_source: one physical line
# The body of the `for physical_line_num, line in enumerate(fp, start=1)` loop, verified as a unit: which calls are
# made on the cleaner, the physical-line buffer and the logical-line record, in which order and under which
# conditions.  The order matters: the logical newline may release a pending `/` into THIS line's buffer, so it
# must precede the blank test of the line (reference: the slash stands on this line).
def _rec(name):
    def h(ex, st, recv, pos, kw, node):
        st.ghost["calls"] = st.ghost.get("calls", ()) + ((name, tuple(pos)),)
        return [(st, VNone())]
    return h


def _process(ex, st, env, node):
    st.ghost["calls"] = st.ghost.get("calls", ()) + (("process", (env["lineiter"],)),)
    me = env["self"]
    new = SeqOf(STR).fresh(ex.ctx, "state_after")
    st.assume(new.n >= 1)
    st.heap[st.heap[me.oid].fields["state"].oid].val = new
    st.ghost["state_after_process"] = new
    return [(st, VNone())]


def _logical_newline(ex, st, env, node):
    # the logical newline may change the cleaner's state (it leaves the found-a-star sub-state of a block comment):
    # whatever is decided AFTER it must look at the state again
    st.ghost["calls"] = st.ghost.get("calls", ()) + (("logical_newline", ()),)
    me = env["self"]
    new = SeqOf(STR).fresh(ex.ctx, "state_after_newline")
    st.assume(new.n >= 1)
    st.heap[st.heap[me.oid].fields["state"].oid].val = new
    return [(st, VNone())]


def _category_rec(ex, st, recv, pos, kw, node):
    r = STR.fresh(ex.ctx, "phys_category")
    st.ghost["calls"] = st.ghost.get("calls", ()) + (("category", (r,)),)
    return [(st, r)]


def _physical_update(ex, st, recv, pos, kw, node):
    st.ghost["calls"] = st.ghost.get("calls", ()) + (("physical_update", tuple(pos)),)
    return [(st, VNone())]


def _physical_reset(ex, st, recv, pos, kw, node):
    st.ghost["calls"] = st.ghost.get("calls", ()) + (("physical_reset", ()),)
    return [(st, INT.fresh(ex.ctx, "sloc"))]


def _islice(ex, st, pos, kw, node, star):
    from pyvc.fsmodel import VHandle
    return [(st, VHandle("islice", tuple(pos)))]


from pyvc.stubs import STUBS as _ST      # noqa: E402
_ST["itertools.islice"] = _islice
PHYS = Abstract("PhysLine", methods={"__init__": _rec("phys_init"), "category": _category_rec})
LOGI = Abstract("LineInfo", attrs={"category": STR},
                methods={"add_physical_line": _rec("add_physical_line"), "join": _rec("join"),
                         "physical_update": _physical_update, "physical_reset": _physical_reset})

fs = contract("codebasin.file_source:c_file_source@loop0", props=["C05"])
fs.param("physical_line_num", INT).param("line", STR)
fs.param("current_physical_line", PHYS).param("curr_line", LOGI)
fs.param("cleaner", ObjSpec("c_cleaner", {"state": CellOf(SeqOf(STR))}))
fs.param("total_sloc", INT)
fs.modifies = ["cleaner", "cleaner.state"]
fs.opaque = {"codebasin.file_source:c_cleaner.process": _process,
             "codebasin.file_source:c_cleaner.logical_newline": _logical_newline}
fs.may_raise = {"RuntimeError"}


def _fs_setup(ctx, st):
    from pyvc.state import HeapObj as _H
    st.ghost["yield_cell"] = st.alloc(_H("cell", val=VEmptySet()))


fs.setup = _fs_setup


@fs.requires
def _(A):
    return [("a physical line is not empty (it ends in a newline unless it is the last)", z3.Length(A.line.t) >= 1),
            ("stack-non-empty", A.cleaner.state.n >= 1)]


@fs.ensures
def _(A, R):
    calls = R.st.ghost.get("calls", ())
    names = [c[0] for c in calls]
    line = A.line.t
    n = z3.Length(line)
    has_nl = z3.SubString(line, n - 1, 1) == z3.StringVal("\n")
    end = z3.If(has_nl, n - 1, n)
    continued = z3.And(end > 0, z3.SubString(line, end - 1, 1) == z3.StringVal("\\"))
    st_final = R.new.cleaner.state
    st_proc = R.st.ghost.get("state_after_process", st_final)
    blk = z3.StringVal("IN_BLOCK_COMMENT")
    newline_due = z3.And(z3.Not(continued), st_proc.arr[st_proc.n - 1] != blk)       # decided on the state the cleaner left
    ends_logical = z3.And(z3.Not(continued), st_final.arr[st_final.n - 1] != blk)   # decided AFTER the logical newline
    out = []
    # expected shapes of the call sequence
    shape_end = ["phys_init", "process", "logical_newline", "category", "?add", "join", "physical_update", "?yield", "physical_reset"]
    shape_mid = ["phys_init", "process", "category", "?add", "join"]
    shape_nl_open = ["phys_init", "process", "logical_newline", "category", "?add", "join"]      # the newline left a block comment open

    def matches(shape):
        it = [x for x in names]
        exp = []
        for s_ in shape:
            if s_ == "?add":
                if "add_physical_line" in it:
                    exp.append("add_physical_line")
            elif s_ == "?yield":          # the executor records a yield in the call list: after the update, before the reset
                if "yield" in it:
                    exp.append("yield")
            else:
                exp.append(s_)
        return it == exp
    out.append(("at a logical line end: reset buffer, clean, logical newline, THEN test the line for blankness, record it, join, "
                "close the logical line", z3.Implies(z3.And(newline_due, ends_logical), z3.BoolVal(matches(shape_end)))))
    out.append(("inside a continued line / block comment: reset buffer, clean, test for blankness, record, join - nothing else",
                z3.Implies(z3.Not(newline_due), z3.BoolVal(matches(shape_mid)))))
    out.append(("a logical newline that leaves a block comment open does not close the logical line (the state is read again)",
                z3.Implies(z3.And(newline_due, z3.Not(ends_logical)), z3.BoolVal(matches(shape_nl_open)))))
    # arguments
    for nm, args in calls:
        if nm == "process":
            h = args[0]
            ok = getattr(h, "tag", None) == "islice"
            if ok:
                src, lo, hi = h.payload
                want_hi = z3.If(continued, end - 1, end)
                out.append(("the cleaner sees the line without its newline and without the continuation backslash",
                            z3.And(ops.deref(R.st, src).t == line, ops.deref(R.st, lo).t == 0, ops.deref(R.st, hi).t == want_hi)))
            else:
                out.append(("the cleaner sees an islice of the line", z3.BoolVal(False)))
        if nm == "add_physical_line":
            cat = [a for c_, a in calls if c_ == "category"]
            out.append(("the line is recorded under its own number, iff its buffer is not BLANK",
                        z3.And(ops.deref(R.st, args[0]).t == A.physical_line_num.t,
                               cat[0][0].t != z3.StringVal("BLANK")) if cat else z3.BoolVal(False)))
        if nm == "physical_update":
            out.append(("the logical line ends after this physical line", ops.deref(R.st, args[0]).t == A.physical_line_num.t + 1))
    if "add_physical_line" not in names and "category" in names:
        cat = [a for c_, a in calls if c_ == "category"][0][0]
        out.append(("a line whose buffer is BLANK is not recorded", cat.t == z3.StringVal("BLANK")))
    yielded = R.yielded
    did_yield = not isinstance(yielded, VEmptySet)
    out.append(("the logical line is yielded iff it is not BLANK (only at a logical line end)",
                z3.BoolVal(did_yield) == z3.And(ends_logical, LOGI.attr(A.curr_line, "category").t != z3.StringVal("BLANK"))))
    return out


UNITS = UNITS + ["codebasin.file_source:c_file_source@loop0"]
