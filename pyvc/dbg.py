"""debug driver: python3-vt -m pyvc.dbg contracts.C07 [function-key-substring]"""
import importlib
import sys
import time

from . import bigop, speclib, contract as C
from .source import SourceIndex
from .engine import verify_function, discharge


def c_params(c):
    return {n for n, _ in c.params}


def main():
    mod = sys.argv[1]
    filt = sys.argv[2] if len(sys.argv) > 2 else ""
    timeout = int(sys.argv[3]) if len(sys.argv) > 3 else 10
    index = SourceIndex()
    importlib.import_module(mod)
    cs = C.all_contracts()
    for key, c in cs.items():
        if filt not in key:
            continue
        t0 = time.time()
        r = verify_function(index, cs, c)
        print(f"== {key}: paths={r.paths} obligations={len(r.obligations)} error={r.error} "
              f"symex={time.time()-t0:.2f}s inlined={sorted(r.inlined)}")
        cov = discharge(r.obligations, r.covers, timeout=timeout)
        for ob in r.obligations:
            print(f"   [{ob.status:7}] {ob.name}  ({ob.solver}, {ob.time:.2f}s)")
            if getattr(ob, "model", None):
                print("      model:", {k: v for k, v in ob.model.items() if "!" not in k or k.split("!")[0] in c_params(c)})
        for name, ans, solver, dt in cov:
            print(f"   cover {ans:5} {name}")


if __name__ == "__main__":
    main()
