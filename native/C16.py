"""Native evaluation of the C16 contract: real find_duplicates on small code bases vs. a byte-wise partition."""
import itertools
import os
import random
import shutil
import tempfile
from pathlib import Path

from codebasin import CodeBase
from codebasin import report

# the last two: same length, same first 70000 bytes, same mtime (set below) - they differ in the last byte only, so a
# candidate key from the size and a leading block, or a comparison that trusts the stat signature, calls them equal
_BIG = b"/* generated table */\n" + b"0123456789abcde\n" * 4375
POOL = [b"", b"a", b"a\n", b"b", b"int x;\n", b"int x;\n ", _BIG + b"1\n", _BIG + b"2\n"]


class Dups:
    proved = True

    def bound(self, tier):
        return ("(same directory reused by every case of the run) all assignments of 8 contents (incl. empty, differing in last byte / length, two 70 KB files equal but for the last byte) to <=4 files, "
                "each file optionally a symlink or a hard link to the first one, one optional excluded twin"
                + ("" if tier == "quick" else "; plus 300 random code bases of <=9 files in nested dirs"))

    def inputs(self, tier, seed):
        for k, inp in enumerate(self._inputs(tier, seed)):
            inp["k"], inp["tier"], inp["seed"] = k, tier, seed
            yield inp

    def decode(self, j):
        j = dict(j)
        j["_replay"] = True
        return j

    def _inputs(self, tier, seed):
        n_max = 3 if tier == "quick" else 4
        for n in range(1, n_max + 1):
            for contents in itertools.product(range(len(POOL)), repeat=n):
                if tier == "quick" and n == 3 and len(set(contents)) == 3:
                    continue
                for link in [None] + list(range(1, n)):
                    for excl in (False, True):
                        yield {"contents": list(contents), "link": link, "exclude_last": excl, "nested": False}
                        for hard in range(1, n):
                            if hard != link:       # a second NAME of the first file (hard link): a regular file like any other
                                yield {"contents": list(contents), "link": link, "hard": hard, "exclude_last": excl, "nested": False}
        if tier != "quick":
            rng = random.Random(seed)
            for _ in range(300):
                n = rng.randint(2, 9)
                case = {"contents": [rng.randrange(len(POOL)) for _ in range(n)],
                        "link": rng.choice([None] + list(range(1, n))), "exclude_last": rng.random() < 0.3, "nested": True}
                hard = random.Random(seed * 1000 + _).choice([None] + list(range(1, n)))
                if hard is not None and hard != case["link"]:
                    case["hard"] = hard
                yield case

    def nontrivial(self, inp):
        c = inp["contents"]
        return len(c) != len(set(c))

    _root = None

    def check(self, inp):
        if inp.get("_replay"):
            # a replay re-creates the history of the run first: every earlier case, in the same process and directory
            for prev in self._inputs(inp.get("tier", "quick"), inp.get("seed", 0)):
                k = getattr(self, "_k", 0)
                self._k = k + 1
                if k >= inp.get("k", 0):
                    break
                self._check(prev)
            self._k = 0
        return self._check(inp)

    def _check(self, inp):
        # one directory for every case of the run: the same paths are seen again with other contents (and the same
        # size / mtime), so anything remembered from an earlier call in this process is stale
        if Dups._root is None:
            Dups._root = tempfile.mkdtemp(prefix="cbi_c16_")
            import atexit
            atexit.register(shutil.rmtree, Dups._root, True)
        root = Dups._root
        for name in os.listdir(root):
            q = os.path.join(root, name)
            shutil.rmtree(q) if os.path.isdir(q) and not os.path.islink(q) else os.unlink(q)
        try:
            paths = []
            for i, ci in enumerate(inp["contents"]):
                d = os.path.join(root, f"d{i % 2}") if inp["nested"] else root
                os.makedirs(d, exist_ok=True)
                p = os.path.join(d, f"f{i}.c")
                if inp["link"] is not None and i == inp["link"]:
                    os.symlink(paths[0], p)
                elif inp.get("hard") is not None and i == inp["hard"]:
                    os.link(paths[0], p)
                else:
                    with open(p, "wb") as fh:
                        fh.write(POOL[ci])
                paths.append(p)
            for p in paths:                      # same size + same mtime must not be taken for same content
                if not os.path.islink(p):
                    os.utime(p, (1700000000, 1700000000))
            excl = []
            if inp["exclude_last"]:
                excl = [os.path.basename(paths[-1])]
            cb = CodeBase(root, exclude_patterns=excl)
            # the members by the statement, from the files this case created (not from the tool's own enumeration):
            # every name that is not a symbolic link and not excluded
            members = [Path(p) for i, p in enumerate(paths)
                       if not os.path.islink(p) and not (inp["exclude_last"] and i == len(paths) - 1)]
            classes = {}
            for p in members:
                classes.setdefault(p.read_bytes(), set()).add(p)
            exp = sorted(sorted(str(x) for x in g) for g in classes.values() if len(g) >= 2)
            try:
                res = report.find_duplicates(cb)
                obs = sorted(sorted(str(x) for x in g) for g in res)
            except Exception as e:      # noqa: BLE001
                obs = f"raised {type(e).__name__}: {e}"
            if obs != exp:
                rel = lambda gs: [[os.path.relpath(x, root) for x in g] for g in gs] if isinstance(gs, list) else gs  # noqa: E731
                return {"expected": rel(exp), "observed": rel(obs), "klass": "find_duplicates"}
            return None
        finally:
            pass


class Report:
    """report.duplicates(codebase, stream): the groups WRITTEN TO THE STREAM are the byte-wise partition"""
    proved = False
    role = "bounded check of the report writer (find_duplicates itself is under contract)"

    def bound(self, tier):
        return "6 small code bases, report written to an in-memory stream"

    def inputs(self, tier, seed):
        for k in range(6):
            yield {"k": k}

    def nontrivial(self, inp):
        return True

    def check(self, inp):
        import io
        k = inp["k"]
        files = {"a.c": b"int x;\n", "sub/b.c": b"int x;\n", "u.c": b"int x;", "v.c": b"int y;\n"}
        if k >= 1:
            files.update({"e1.h": b"", "sub/e2.cpp": b"", "e3.c": b""})
        if k >= 3:
            files["w.c"] = b"int y;\n"
        if k == 5:
            files = {"only.c": b"1\n", "other.c": b"2\n"}
        root = os.path.realpath(tempfile.mkdtemp(prefix="cbi_c16r_"))
        try:
            for rel, data in files.items():
                p = os.path.join(root, rel)
                os.makedirs(os.path.dirname(p), exist_ok=True)
                with open(p, "wb") as fh:
                    fh.write(data)
            classes = {}
            for rel, data in files.items():
                classes.setdefault(data, set()).add(os.path.join(root, rel))
            exp = sorted(sorted(g) for g in classes.values() if len(g) >= 2)
            stream = io.StringIO()
            try:
                report.duplicates(CodeBase(root), stream)
            except Exception as e:      # noqa: BLE001
                return {"expected": "report written", "observed": f"raised {type(e).__name__}: {e}", "klass": "duplicates-report:raises"}
            groups, cur = [], None
            for line in stream.getvalue().splitlines():
                if line.startswith("Match "):
                    cur = []
                    groups.append(cur)
                elif line.startswith("- ") and cur is not None:
                    cur.append(line[2:].strip())
            obs = sorted(sorted(g) for g in groups)
            if obs != exp:
                rel = lambda gs: [[os.path.relpath(x, root) for x in g] for g in gs]      # noqa: E731
                return {"expected": f"groups on the stream {rel(exp)}", "observed": f"{rel(obs)}", "klass": "duplicates-report:stream"}
            return None
        finally:
            shutil.rmtree(root, ignore_errors=True)


TARGETS = {"codebasin.report:find_duplicates": Dups(), "codebasin.report:duplicates": Report()}
