"""Native bounded stand-in for C09: random directory trees (source and non-source
suffixes, names with spaces / glob metacharacters, file and directory links,
dangling links) x random gitignore pattern lists; membership and enumeration of
the real CodeBase vs an oracle that uses `git check-ignore --no-index` for the
pattern semantics (the part of the property that lives in pathspec)."""
import os
import random
import shutil
import subprocess
import tempfile
from pathlib import Path

from codebasin import CodeBase

NAMES = ["a.c", "b.h", "c.txt", "d.cpp", "e f.c", "g[1].c", "h.o", "i.F90", "Makefile", "j.c"]
DIRS = ["", "sub", "sub/deep", "inc", "b.h.d", "x y"]
PATTERNS = ["*.h", "sub/", "/a.c", "deep", "**/j.c", "e?f.c", "g\\[1\\].c", "!d.cpp", "*.c", "!sub/deep/a.c", "inc/*",
            "# comment", "", "sub/**", "x y/", "[ab].*", "*.F90"]
EXT = {".f90", ".F90", ".f", ".ftn", ".fpp", ".F", ".FOR", ".FTN", ".FPP", ".c", ".h", ".c++", ".cxx", ".cpp", ".cc",
       ".hpp", ".hxx", ".h++", ".hh", ".inc", ".inl", ".tcc", ".icc", ".ipp", ".cu", ".cuh", ".cl", ".s", ".S", ".asm"}


def git_ignored(root, patterns, rels):
    """set of rels (posix, relative to root) that git would ignore given the pattern list"""
    if not rels:
        return set()
    g = tempfile.mkdtemp(prefix="cbi_git_")
    try:
        subprocess.run(["git", "init", "-q", g], check=True, capture_output=True)
        with open(os.path.join(g, ".gitignore"), "w") as fh:
            fh.write("\n".join(patterns) + "\n")
        # mirror the tree shape (directories matter for 'dir/' patterns)
        for r in rels:
            p = os.path.join(g, r)
            os.makedirs(os.path.dirname(p), exist_ok=True)
            if not os.path.exists(p):
                open(p, "w").close()
        out = subprocess.run(["git", "-C", g, "check-ignore", "--no-index", "--stdin", "-z"],
                             input="\0".join(rels) + "\0", capture_output=True, text=True)
        return set(x for x in out.stdout.split("\0") if x)
    finally:
        shutil.rmtree(g, ignore_errors=True)


class Membership:
    proved = True

    def bound(self, tier):
        n = 80 if tier == "quick" else 600
        return f"{n} seeded random trees (<=14 entries over 10 names x 6 directories, file/dir/dangling links) x 0-3 patterns from a pool of {len(PATTERNS)}; every path spelled absolute, relative-with-dotdot and through links"

    def inputs(self, tier, seed):
        n = 80 if tier == "quick" else 600
        for i in range(n):
            yield {"seed": seed * 7919 + i}

    def nontrivial(self, inp):
        return True

    def build(self, inp, root):
        rng = random.Random(inp["seed"])
        cb = os.path.join(root, "cb")
        out = os.path.join(root, "out")
        os.makedirs(cb)
        os.makedirs(out)
        files = []
        for _ in range(rng.randint(3, 10)):
            d, n = rng.choice(DIRS), rng.choice(NAMES)
            p = os.path.join(cb, d, n)
            os.makedirs(os.path.dirname(p), exist_ok=True)
            if not os.path.lexists(p):
                with open(p, "w") as fh:
                    fh.write("int x;\n")
                files.append(p)
        with open(os.path.join(out, "o.c"), "w") as fh:
            fh.write("int o;\n")
        # a sibling directory whose name merely extends the code-base directory's name
        os.makedirs(os.path.join(root, "cb-old", "sub"))
        for n in ("a.c", "sub/b.h"):
            with open(os.path.join(root, "cb-old", n), "w") as fh:
                fh.write("int old;\n")
        links = []
        for _ in range(rng.randint(0, 3)):
            kind = rng.choice(["file", "dir", "dangling", "outside"])
            lp = os.path.join(cb, rng.choice(DIRS), "l" + str(rng.randint(0, 9)) + rng.choice([".c", ".h", ""]))
            os.makedirs(os.path.dirname(lp), exist_ok=True)
            if os.path.lexists(lp):
                continue
            if kind == "file" and files:
                os.symlink(rng.choice(files), lp)
            elif kind == "dir":
                os.symlink(os.path.join(cb, "sub"), lp)
            elif kind == "outside":
                os.symlink(os.path.join(out, "o.c"), lp)
            else:
                os.symlink(os.path.join(cb, "missing.c"), lp)
            links.append(lp)
        pats = rng.sample(PATTERNS, rng.randint(0, 3))
        if rng.random() < 0.35:
            # order-sensitive lists: a broad pattern followed by a re-inclusion (gitignore: last match wins)
            pats = rng.choice([["*.h", "!b.h"], ["*.c", "!a.c", "*.F90"], ["inc/*", "!inc/b.h"], ["sub/*", "!sub/a.c", "d.cpp"],
                               # the same pattern twice with the opposite polarity in between (every occurrence counts)
                               ["*.c", "!a.c", "*.c"], ["!b.h", "*.h", "!b.h"], ["sub/*", "!sub/a.c", "sub/*", "*.F90"]])
            for rel in ("b.h", "a.c", "inc/b.h", "sub/a.c", "d.cpp"):      # the re-included files exist
                p = os.path.join(cb, rel)
                os.makedirs(os.path.dirname(p), exist_ok=True)
                if not os.path.lexists(p):
                    with open(p, "w") as fh:
                        fh.write("int r;\n")
        if getattr(self, "no_patterns", False):
            pats = []               # spelling / link aspects only (used by C15): nothing of the matcher is involved
        return cb, pats

    def check(self, inp):
        root = os.path.realpath(tempfile.mkdtemp(prefix="cbi_c09_"))
        try:
            cb, pats = self.build(inp, root)
            code = CodeBase(cb, exclude_patterns=pats)
            # every path in the tree, as found by an os.walk that follows nothing
            paths = []
            for dp, dns, fns in os.walk(cb):
                for n in dns + fns:
                    paths.append(os.path.join(dp, n))
            paths.append(os.path.join(root, "out", "o.c"))
            paths += [os.path.join(root, "cb-old", "a.c"), os.path.join(root, "cb-old", "sub", "b.h")]
            cand = {}
            for p in paths:
                r = os.path.realpath(p)
                if os.path.exists(r) and not os.path.isdir(r) and Path(r).suffix in EXT and (r == cb or r.startswith(cb + os.sep)):
                    cand[p] = os.path.relpath(r, cb).replace(os.sep, "/")
            ign = git_ignored(cb, pats, sorted(set(cand.values())))
            expected = {p for p, rel in cand.items() if rel not in ign}
            for p in paths:
                spellings = [p, os.path.join(os.path.dirname(p), ".", "..", os.path.basename(os.path.dirname(p)), os.path.basename(p)),
                             os.path.relpath(p, os.getcwd())]
                for s in spellings:
                    try:
                        obs = s in code
                    except Exception as e:      # noqa: BLE001
                        obs = f"raised {type(e).__name__}"
                    if obs != (p in expected):
                        kl = "membership"
                        if obs is True and p in cand and any(x.startswith("!") for x in pats):
                            # git: "it is not possible to re-include a file if a parent directory of that file is excluded"
                            parts = cand[p].split("/")
                            parents = ["/".join(parts[:k]) + "/" for k in range(1, len(parts))]
                            if git_ignored(cb, pats, parents):
                                kl = "membership:negation-re-includes-file-under-excluded-directory"
                        return {"expected": f"{os.path.relpath(p, root)} member={p in expected} (patterns {pats})",
                                "observed": f"spelled {os.path.relpath(s, root)!r}: {obs}", "klass": kl}
            # spellings that name nothing: ".." after a component that does not exist / is a regular file, a trailing "/."
            for p in paths:
                if os.path.isfile(p):
                    d, b = os.path.dirname(p), os.path.basename(p)
                    for s in (os.path.join(d, "no_such_dir", "..", b), os.path.join(p, "..", b), os.path.join(p, ".")):
                        try:
                            obs = s in code
                        except Exception as e:      # noqa: BLE001
                            obs = f"raised {type(e).__name__}"
                        if obs is not False:
                            return {"expected": f"{os.path.relpath(s, root)} names no file (os.path.exists is False): member=False",
                                    "observed": str(obs), "klass": "membership:spelling-that-names-nothing"}
            listed = sorted(code)
            # enumeration: exactly the members that a walk without following directory links reaches
            want = sorted(p for p in expected if p.startswith(cb + os.sep) and not any(
                os.path.islink(os.path.join(cb, *os.path.relpath(p, cb).split(os.sep)[:k]))
                for k in range(1, len(os.path.relpath(p, cb).split(os.sep)))))
            if listed != want:
                rel = lambda xs: [os.path.relpath(x, root) for x in xs]      # noqa: E731
                return {"expected": rel(want), "observed": rel(listed), "klass": "enumeration", "patterns": pats}
            # the code-base directory named through a symbolic link: the same code base
            alias = os.path.join(root, "cb_alias")
            if not os.path.lexists(alias):
                os.symlink(cb, alias)
            via = sorted(CodeBase(alias, exclude_patterns=pats))
            both = sorted(CodeBase(cb, alias, exclude_patterns=pats))
            if via != listed or both != listed:
                rel = lambda xs: [os.path.relpath(x, root) for x in xs]      # noqa: E731
                return {"expected": f"CodeBase(link to the directory) and CodeBase(directory, link) list {rel(listed)}",
                        "observed": f"{rel(via)} / {rel(both)}", "klass": "enumeration:directory-named-through-a-link"}
            # overlapping code-base directories (the same one twice, one below another): every member listed once
            subdirs = [os.path.join(cb, n) for n in sorted(os.listdir(cb)) if os.path.isdir(os.path.join(cb, n)) and not os.path.islink(os.path.join(cb, n))]
            for dirs in ([cb, cb], [cb] + subdirs[:1], subdirs[:1] + [cb]):
                twice = sorted(CodeBase(*dirs, exclude_patterns=pats))
                # (with patterns, membership is judged relative to the FIRST directory that contains the file, so only
                # the "each once" part is comparable)
                if len(twice) != len(set(twice)) or (not pats and set(twice) != set(listed)):
                    rel = lambda xs: [os.path.relpath(x, root) for x in xs]      # noqa: E731
                    return {"expected": f"directories {rel(dirs)}: the members of {rel([cb])}, each once: {rel(listed)}", "observed": rel(twice),
                            "klass": "enumeration:overlapping-directories"}
            return None
        finally:
            shutil.rmtree(root, ignore_errors=True)


TARGETS = {"codebasin:CodeBase.__contains__": Membership()}


# ---- recorded findings in the third-party matcher (pathspec, A6), reported by defect hunting; oracle: git check-ignore ----
from native import recorded as _R      # noqa: E402


def _members(pattern, files):
    with _R.tree({f: "int x;\n" for f in files}) as root:
        cb = CodeBase(root, exclude_patterns=[pattern])
        got = {f: (os.path.join(root, f) in cb) for f in files}
        ign = git_ignored(root, [pattern], list(files))
        want = {f: f not in ign for f in files}
    return None if got == want else (f"{want} (git check-ignore --no-index)", got)


TARGETS["codebasin:CodeBase.__contains__#recorded-findings"] = _R.Exhibits([
    ("membership:pathspec:leading-blank-of-a-pattern", "pattern ' gen.c'", lambda: _members(" gen.c", ["gen.c", " gen.c"])),
    ("membership:pathspec:bracket-expression-matches-the-separator", "pattern '*[!_]test.cpp'",
     lambda: _members("*[!_]test.cpp", ["unit/test.cpp", "mytest.cpp", "unit/x_test.cpp"])),
    ("membership:pathspec:directory-pattern-ending-in-double-star", "pattern 'sub/**/'",
     lambda: _members("sub/**/", ["sub/a.c", "sub/deep/b.c", "top.c"])),
])
