"""native/sysrun.py -- materialise a model program on disk, run the real analysis
in-process, and compute the reference attribution for the same inputs."""
import os
import shutil
import tempfile

from codebasin import CodeBase, finder
from codebasin.preprocessor import CodeNode

from native import refpp


class Sandbox:
    """a temporary directory tree reused between cases (contents replaced)"""

    def __init__(self, prefix):
        self.root = os.path.realpath(tempfile.mkdtemp(prefix=prefix))
        import atexit
        atexit.register(shutil.rmtree, self.root, True)

    def reset(self):
        for name in os.listdir(self.root):
            p = os.path.join(self.root, name)
            if os.path.isdir(p) and not os.path.islink(p):
                shutil.rmtree(p)
            else:
                os.unlink(p)

    def write(self, files, links=None):
        """files: rel path -> list of Line ; links: rel path -> rel target (file or dir symlinks)"""
        self.reset()
        for rel, lines in files.items():
            p = os.path.join(self.root, rel)
            os.makedirs(os.path.dirname(p), exist_ok=True)
            with open(p, "w") as fh:
                fh.write(refpp.render_file(lines))
        for rel, tgt in (links or {}).items():
            p = os.path.join(self.root, rel)
            os.makedirs(os.path.dirname(p), exist_ok=True)
            if tgt.startswith("rel:"):          # a relative link (resolved against the link's own directory)
                os.symlink(os.path.relpath(os.path.join(self.root, tgt[4:]), os.path.dirname(p)), p)
            else:
                os.symlink(os.path.join(self.root, tgt), p)

    def abs(self, rel):
        return os.path.join(self.root, rel)


def real_find(root, configuration, codebase_dirs=None, excludes=None):
    cb = CodeBase(*(codebase_dirs or [root]), exclude_patterns=list(excludes or []))
    state = finder.find(root, cb, configuration)
    return cb, state


def real_used(state):
    """platform -> set of (real file path, line) attributed by the real analysis"""
    used = {}
    for fn, tree in state.trees.items():
        assoc = state.maps[fn]
        for node in tree.walk():
            if isinstance(node, CodeNode):
                for p in assoc[node]:
                    used.setdefault(p, set()).update((fn, ln) for ln in node.lines)
    return used


def ref_used(sb, files, configuration, extra_exists=None):
    """platform -> (set of (abs file, line), events) by the reference preprocessor.
    Raises refpp.Invalid if a conforming preprocessor would diagnose the program."""
    absfiles = {os.path.realpath(sb.abs(rel)): lines for rel, lines in files.items()}
    exists = lambda p: os.path.isfile(p)      # noqa: E731  (the tree on disk is the model's file system)
    out = {}
    for plat, entries in configuration.items():
        used, events = set(), []
        for e in entries:
            defines = dict(refpp.parse_define(d) for d in e["defines"])
            r = refpp.run_tu(absfiles, exists, e["file"], e["include_paths"], defines, e.get("include_files", ()),
                             canon=os.path.realpath)
            used |= r.used
            events += r.events
        out[plat] = (used, events)
    return out


def entry(sb, rel, defines=(), include_paths=(), include_files=()):
    return {"file": sb.abs(rel), "defines": list(defines),
            "include_paths": [sb.abs(p) for p in include_paths], "include_files": list(include_files)}


def rel_used(sb, used):
    return sorted((os.path.relpath(f, sb.root), ln) for f, ln in used)
