"""
Native bounded check for C02: the truth value CBI computes for #if/#elif controlling
expressions vs ISO C preprocessor arithmetic (intmax_t/uintmax_t = 64 bit, usual
arithmetic conversions, C precedence/associativity, relational/logical results 0|1,
/ and % truncating, literals in every base/suffix, character constants, defined,
unknown identifiers = 0).  The reference evaluator below is written from the C
standard (A9) on explicit (unsigned?, value) pairs; expressions with undefined
behaviour (division by zero, shift count outside [0,64), signed overflow) are skipped.
"""
import itertools
import random

from codebasin import preprocessor
from codebasin.platform import Platform

M = 1 << 64
IMAX, IMIN = (1 << 63) - 1, -(1 << 63)


class UB(Exception):
    pass


def lit(text):
    """C integer literal -> (unsigned?, value) with the #if typing rules"""
    t = text.lower()
    uns = "u" in t.lstrip("0x") and t.rstrip("ul") != t and "u" in t[len(t.rstrip("ul")):]
    body = t.rstrip("ul")
    if body.startswith("0x"):
        v, based = int(body[2:], 16), True
    elif body.startswith("0b"):
        v, based = int(body[2:], 2), True
    elif body.startswith("0") and len(body) > 1:
        v, based = int(body, 8), True
    else:
        v, based = int(body, 10), False
    if v >= M:
        raise UB("literal too large")
    if uns or (v > IMAX):          # unsuffixed decimal > INTMAX is ill-formed in C; hex/octal become unsigned
        if not uns and not based:
            raise UB("decimal literal does not fit intmax_t")
        return (True, v)
    return (False, v)


ESC = {"n": 10, "t": 9, "0": 0, "\\": 92, "'": 39, '"': 34, "a": 7, "r": 13}


def conv(a, b):
    """usual arithmetic conversions: any unsigned operand makes both unsigned"""
    u = a[0] or b[0]
    if u:
        return True, a[1] % M, b[1] % M
    return False, a[1], b[1]


def wrap(u, v):
    if u:
        return (True, v % M)
    if not (IMIN <= v <= IMAX):
        raise UB("signed overflow")
    return (False, v)


def ev(e, defined=()):
    k = e[0]
    if k == "val":
        return e[1]
    if k == "lit":
        return lit(e[1])
    if k == "chr":
        return (False, e[2])
    if k == "id":
        return (False, 0)
    if k == "defined":
        return (False, 1 if e[1] in defined else 0)
    if k == "par":
        return ev(e[1], defined)
    if k == "un":
        op, a = e[1], ev(e[2], defined)
        if op == "!":
            return (False, 0 if a[1] else 1)
        if op == "+":
            return a
        if op == "-":
            return wrap(a[0], -a[1])
        if op == "~":
            return (a[0], (~a[1]) % M if a[0] else ~a[1])
    if k == "tern":
        c = ev(e[1], defined)
        a, b = ev(e[2], defined), ev(e[3], defined)     # both arms are converted to a common type
        u = a[0] or b[0]
        r = a if c[1] else b
        return (u, r[1] % M if u else r[1])
    if k == "bin":
        op = e[1]
        if op == "&&":
            a = ev(e[2], defined)
            return (False, 1 if (a[1] and ev(e[3], defined)[1]) else 0)
        if op == "||":
            a = ev(e[2], defined)
            return (False, 1 if (a[1] or ev(e[3], defined)[1]) else 0)
        a, b = ev(e[2], defined), ev(e[3], defined)
        if op in ("<<", ">>"):
            if not (0 <= b[1] < 64) or (not b[0] and b[1] < 0):
                raise UB("shift count")
            if op == "<<":
                if a[0]:
                    return (True, (a[1] << b[1]) % M)
                if a[1] < 0 or (a[1] << b[1]) > IMAX:
                    raise UB("signed left shift")
                return (False, a[1] << b[1])
            return (a[0], a[1] >> b[1])       # arithmetic shift for negative signed (implementation-defined, gcc)
        u, x, y = conv(a, b)
        if op in ("<", "<=", ">", ">=", "==", "!="):
            return (False, int({"<": x < y, "<=": x <= y, ">": x > y, ">=": x >= y, "==": x == y, "!=": x != y}[op]))
        if op in ("/", "%"):
            if y == 0:
                raise UB("division by zero")
            if not u and x == IMIN and y == -1:
                raise UB("INT_MIN / -1")
            q = abs(x) // abs(y)
            if (x < 0) != (y < 0):
                q = -q
            return wrap(u, q if op == "/" else x - q * y)
        if op == "+":
            return wrap(u, x + y)
        if op == "-":
            return wrap(u, x - y)
        if op == "*":
            return wrap(u, x * y)
        if op == "&":
            return (u, (x & y) % M if u else x & y)
        if op == "|":
            return (u, (x | y) % M if u else x | y)
        if op == "^":
            return (u, (x ^ y) % M if u else x ^ y)
    raise ValueError(e)


def render(e):
    k = e[0]
    if k == "lit":
        return e[1]
    if k == "chr":
        return e[1]
    if k == "id":
        return e[1]
    if k == "defined":
        return f"defined({e[1]})" if e[2] else f"defined {e[1]}"
    if k == "par":
        return "(" + render(e[1]) + ")"
    if k == "un":
        return e[1] + render(e[2])
    if k == "tern":
        return f"{render(e[1])} ? {render(e[2])} : {render(e[3])}"
    return f"{render(e[2])} {e[1]} {render(e[3])}"


BINOPS = ["*", "/", "%", "+", "-", "<<", ">>", "<", "<=", ">", ">=", "==", "!=", "&", "^", "|", "&&", "||"]
PREC = {"*": 10, "/": 10, "%": 10, "+": 9, "-": 9, "<<": 8, ">>": 8, "<": 7, "<=": 7, ">": 7, ">=": 7, "==": 6, "!=": 6,
        "&": 5, "^": 4, "|": 3, "&&": 2, "||": 1}
LITS = ["0", "1", "2", "3", "7", "010", "0x10", "0b101", "9223372036854775807", "1u", "0u", "18446744073709551615u",
        "0xFFFFFFFFFFFFFFFFu", "2ull", "5L", "017", "0X1F", "100UL",
        # every integer-suffix shape of ISO C 6.4.4.1: u/U with l/L or ll/LL in either order and any case combination
        "3ul", "3uL", "3Ul", "3lu", "3lU", "3Lu", "3LU", "3ull", "3uLL", "3Ull", "3ULL", "3llu", "3llU", "3LLu", "3LLU",
        "3l", "3ll", "3LL", "3U", "0x3uL", "03lu", "0b11LLU"]
CHARS = [("'a'", 97), ("'0'", 48), ("'\\n'", 10), ("'\\0'", 0), ("'\\\\'", 92), ("'\\''", 39), ("'\\x41'", 0x41), ("'\\101'", 65),
         # every simple escape sequence of ISO C 6.4.4.4, more octal / hexadecimal shapes, punctuation
         ("'\\a'", 7), ("'\\b'", 8), ("'\\f'", 12), ("'\\r'", 13), ("'\\t'", 9), ("'\\v'", 11), ("'\\\"'", 34), ("'\\?'", 63),
         ("'\\7'", 7), ("'\\12'", 10), ("'\\177'", 127), ("'\\x7'", 7), ("'\\x7f'", 127), ("'\\x0A'", 10),
         ("'\t'", 9), ("'\v'", 11), ("'\f'", 12),            # literal TAB / VT / FF inside the quotes (C11 5.2.1p3)
         ("'\"'", 34), ("'?'", 63), ("' '", 32), ("'~'", 126), ("'A'", 65), ("'x'", 120), ("'7'", 55)]
NEG = ("un", "-", ("lit", "1"))


def group(a, op1, b, op2, c):
    """the C grouping of  a op1 b op2 c  (all binary operators are left associative)"""
    if PREC[op2] > PREC[op1]:
        return ("bin", op1, a, ("bin", op2, b, c))
    return ("bin", op2, ("bin", op1, a, b), c)


class Flat:
    """an expression given as the token text a real preprocessor sees, with its C parse"""

    def __init__(self, text, tree):
        self.text, self.tree = text, tree


def cases(tier, seed):
    atoms = [("lit", x) for x in LITS] + [("chr", t, v) for t, v in CHARS] + [("id", "UNKNOWN"), ("defined", "DEF", True),
                                                                                ("defined", "UNDEF", False), ("par", NEG)]
    small = [("lit", x) for x in ["0", "1", "2", "3", "7", "1u", "18446744073709551615u", "9223372036854775807"]] + [("par", NEG), ("par", ("un", "-", ("lit", "7")))]
    # 1. every atom alone, under every unary operator
    for a in atoms:
        yield Flat(render(a), a)
        for u in "+-!~":
            yield Flat(u + render(a), ("un", u, a))
    # 1b. the VALUE of every character constant and literal (an atom alone only shows zero / non-zero)
    for t, v in CHARS:
        for w in (v, v + 1):
            yield Flat(f"{t} == {w}", ("bin", "==", ("chr", t, v), ("lit", str(w))))
    for x in LITS:
        u, v = lit(x)
        for w in (v, v - 1 if v else 1):
            ws = f"{w}u" if u else str(w)
            yield Flat(f"{x} == {ws}", ("bin", "==", ("lit", x), ("lit", ws)))
    # 2. every binary operator on every pair of boundary operands
    for op in BINOPS:
        for a, b in itertools.product(small, repeat=2):
            yield Flat(f"{render(a)} {op} {render(b)}", ("bin", op, a, b))
    # 3. every ordered pair of binary operators (precedence / associativity)
    trip = [("lit", "7"), ("lit", "2"), ("lit", "3")] if tier == "quick" else None
    ops2 = list(itertools.product(BINOPS, repeat=2))
    for op1, op2 in ops2:
        for a, b, c in ([tuple(trip)] if trip else itertools.product(small[:6], repeat=3)):
            yield Flat(f"{render(a)} {op1} {render(b)} {op2} {render(c)}", group(a, op1, b, op2, c))
    # 4. unary binds tighter than binary; ternary lowest and right associative
    for op in BINOPS:
        yield Flat(f"-2 {op} 3", ("bin", op, ("un", "-", ("lit", "2")), ("lit", "3")))
        yield Flat(f"!0 {op} 3", ("bin", op, ("un", "!", ("lit", "0")), ("lit", "3")))
        yield Flat(f"1 {op} 2 ? 3 : 0", ("tern", ("bin", op, ("lit", "1"), ("lit", "2")), ("lit", "3"), ("lit", "0")))
    yield Flat("1 ? 0 : 1 ? 0 : 1", ("tern", ("lit", "1"), ("lit", "0"), ("tern", ("lit", "1"), ("lit", "0"), ("lit", "1"))))
    yield Flat("0 ? 1 : 0 ? 1 : 0", ("tern", ("lit", "0"), ("lit", "1"), ("tern", ("lit", "0"), ("lit", "1"), ("lit", "0"))))
    yield Flat("1 ? -1 : 0u", ("tern", ("lit", "1"), NEG, ("lit", "0u")))
    yield Flat("(1 ? -1 : 0u) > 0", ("bin", ">", ("par", ("tern", ("lit", "1"), NEG, ("lit", "0u"))), ("lit", "0")))
    # 5. random deeper expressions
    rng = random.Random(seed)

    def rnd(d):
        r = rng.random()
        if d == 0 or r < 0.3:
            return rng.choice(atoms)
        if r < 0.45:
            return ("un", rng.choice("+-!~"), rnd(d - 1) if rng.random() < 0.5 else ("par", rnd(d - 1)))
        if r < 0.55:
            return ("par", ("tern", rnd(d - 1), rnd(d - 1), rnd(d - 1)))
        return ("par", ("bin", rng.choice(BINOPS), rnd(d - 1), rnd(d - 1)))
    for _ in range(400 if tier == "quick" else 30000):
        t = rnd(3)
        yield Flat(render(t), t)


class IfArith:
    proved = False
    role = "bounded check of #if arithmetic against the C reference evaluator (not counted as proved)"

    def bound(self, tier):
        return ("every atom (18 literals in all bases/suffixes, 8 character constants, identifier, defined) under every unary operator; "
                "every binary operator on 10x10 boundary operands; every ordered pair of the 18 binary operators; ternary nesting; "
                + ("400" if tier == "quick" else "30000 + all 18x18 pairs over 6^3 operand triples") + " seeded random expressions of depth <= 3")

    def inputs(self, tier, seed):
        for i, c in enumerate(cases(tier, seed)):
            yield {"text": c.text, "tree": c.tree, "k": i, "tier": tier, "seed": seed}

    def nontrivial(self, inp):
        return inp["tree"][0] in ("bin", "tern")

    def check(self, inp):
        if inp.get("_replay") and type(self) is IfArith:
            # a replay re-creates the history of the run: every earlier expression, in this process
            for i, c in enumerate(cases(inp.get("tier", "quick"), inp.get("seed", 0))):
                if i >= inp.get("k", 0):
                    break
                self._check({"text": c.text, "tree": c.tree})
        return self._check(inp)

    def _check(self, inp):
        try:
            want = ev(inp["tree"], defined=("DEF",))
        except UB:
            return None
        truth = want[1] != 0
        plat = Platform("p", "/")
        plat.define("DEF", preprocessor.macro_from_definition_string("DEF=1"))
        try:
            # through the directive node, as the analysis does (observe_at: IfNode.evaluate_for_platform); every case of the
            # run goes through the same process, so anything remembered from an earlier expression is visible
            node = preprocessor.DirectiveParser(preprocessor.Lexer("#if " + inp["text"]).tokenize()).parse()
            got = node.evaluate_for_platform(platform=plat, filename="x.c", state=None)
        except BaseException as e:      # noqa: BLE001
            return {"expected": f"{want} (truth {truth})", "observed": f"raised {type(e).__name__}: {e}",
                    "klass": "if-arith:raises:" + classify(inp["tree"], inp["text"])}
        if bool(got) != truth:
            return {"expected": f"{want} (truth {truth})", "observed": str(got), "klass": "if-arith:value:" + classify(inp["tree"], inp["text"])}
        return None

    def encode(self, inp):
        return {"text": inp["text"], "tree": inp["tree"], "k": inp.get("k", 0), "tier": inp.get("tier", "quick"), "seed": inp.get("seed", 0)}

    def decode(self, j):
        def tup(x):
            return tuple(tup(y) for y in x) if isinstance(x, list) else x
        return {"text": j["text"], "tree": tup(j["tree"]), "k": j.get("k", 0), "tier": j.get("tier", "quick"), "seed": j.get("seed", 0),
                "_replay": True}


def classify(tree, text):
    """a coarse class of the feature an expression exercises (for known-finding matching)"""
    feats = set()

    def walk(e):
        if e[0] == "lit":
            b = e[1].lower().rstrip("ul")
            if b.startswith("0") and len(b) > 1 and b[1] not in "xb":
                feats.add("octal")
            try:
                if lit(e[1])[1] > IMAX and not lit(e[1])[0]:
                    feats.add("big-unsuffixed")
                if lit(e[1])[0]:
                    feats.add("unsigned")
            except UB:
                feats.add("big-unsuffixed")
        elif e[0] == "chr" and "\\" in e[1]:
            feats.add("char-escape")
        elif e[0] == "un":
            feats.add("unary" + e[1])
            walk(e[2])
        elif e[0] == "bin":
            feats.add("op" + e[1])
            walk(e[2])
            walk(e[3])
        elif e[0] == "tern":
            feats.add("ternary")
            for x in e[1:]:
                walk(x)
        elif e[0] == "par":
            walk(e[1])
    walk(tree)
    return "+".join(sorted(feats)) or "atom"


class BigLiteral(IfArith):
    """recorded findings, exhibited by fixed inputs: unsuffixed literals that do not fit intmax_t (C: unsigned for
    hex/octal); character constants with an encoding prefix"""
    role = "exhibits recorded findings (the first is pinned by the repository's own tests/failure)"

    def bound(self, tier):
        return "3 + 3 expressions"

    def inputs(self, tier, seed):
        big = "if-arith:big-unsuffixed-literal"
        pre = "if-arith:prefixed-character-constant"
        for text, tree, kl in (
                ("0xFFFFFFFFFFFFFFFF == 18446744073709551615u", ("bin", "==", ("lit", "0xFFFFFFFFFFFFFFFF"), ("lit", "18446744073709551615u")), big),
                ("0xFFFFFFFFFFFFFFFF * 0xFFFFFFFFFFFFFFFF == 1", ("bin", "==", ("bin", "*", ("lit", "0xFFFFFFFFFFFFFFFF"), ("lit", "0xFFFFFFFFFFFFFFFF")), ("lit", "1")), big),
                ("01777777777777777777777 > 0", ("bin", ">", ("lit", "01777777777777777777777"), ("lit", "0")), big),
                ("L'a' == 97", ("bin", "==", ("chr", "L'a'", 97), ("lit", "97")), pre),
                ("u'a' == 97", ("bin", "==", ("chr", "u'a'", 97), ("lit", "97")), pre),
                ("U'\\n' == 10", ("bin", "==", ("chr", "U'\\n'", 10), ("lit", "10")), pre)):
            yield {"text": text, "tree": tree, "kl": kl}

    def check(self, inp):
        r = super().check(inp)
        if r:
            r["klass"] = inp["kl"]
        return r

    def encode(self, inp):
        return {"text": inp["text"], "tree": inp["tree"], "kl": inp["kl"]}

    def decode(self, j):
        d = super().decode(j)
        d["kl"] = j.get("kl", "if-arith:big-unsuffixed-literal")
        return d


# ---- the operator functions themselves, on (type, value) operands ---------------------------------
import re       # noqa: E402

import numpy as np      # noqa: E402

SIGNED = [0, 1, 2, 3, 7, 63, 64, -1, -2, -7, -64, IMIN, IMIN + 1, IMAX, IMAX - 1, 1 << 31, -(1 << 31), 1 << 62]
UNSIGNED = [0, 1, 2, 3, 7, 63, 64, 65, 1 << 31, 1 << 32, 1 << 62, 1 << 63, IMAX, M - 1, M - 2, M - 64]
OPNAME = {"lor": "||", "land": "&&", "or": "|", "xor": "^", "and": "&", "eq": "==", "ne": "!=", "lt": "<", "le": "<=", "gt": ">",
          "ge": ">=", "shl": "<<", "shr": ">>", "add": "+", "sub": "-", "mul": "*", "div": "/", "rem": "%",
          "neg": "-", "pos": "+", "not": "!", "compl": "~"}
_NP = re.compile(r"\(mk_tk_NpInt (true|false) (\(- (\d+)\)|(\d+))\)")


def _np_of(pair):
    return np.uint64(pair[1]) if pair[0] else np.int64(pair[1])


def _pair_of(x):
    return (isinstance(x, np.uint64), int(x))


def model_pair(model, name):
    """the (unsigned?, value) operand the solver's model assigns to parameter `name`"""
    for k, v in model.items():
        if k.split("!")[0] == name:
            m = _NP.fullmatch(v.strip())
            if m:
                return (m.group(1) == "true", -int(m.group(3)) if m.group(3) else int(m.group(4)))
    return None


class Operators:
    """__apply_binary_op / __apply_unary_op / __wrap against the reference on boundary operands of both types;
    the precondition is the contract's (defined in C; implementation-defined negative >> excluded)"""
    proved = True

    def __init__(self, which):
        self.which = which
        self.fn = getattr(preprocessor.ExpressionEvaluator, "_ExpressionEvaluator__" + which)

    def bound(self, tier):
        return (f"{len(SIGNED)} signed x {len(UNSIGNED)} unsigned boundary operands (all type combinations), every operator"
                if self.which != "wrap" else "boundary values around 0, 2**63, 2**64 and their negatives, both types")

    def inputs(self, tier, seed):
        ops = [(u, v) for u, vs in ((False, SIGNED), (True, UNSIGNED)) for v in vs]
        if self.which == "apply_binary_op":
            for op in BINOPS:
                for a in ops:
                    for b in ops:
                        yield {"op": op, "l": a, "r": b}
        elif self.which == "apply_unary_op":
            for op in "+-!~":
                for a in ops:
                    yield {"op": op, "l": a}
        else:
            for v in [0, 1, -1, IMAX, IMAX + 1, IMIN, IMIN - 1, M - 1, M, M + 1, -M, -M - 1, 3 * M + 5, -3 * M - 5, 1 << 127]:
                for u in (False, True):
                    yield {"value": v, "unsigned": u}

    def nontrivial(self, inp):
        return True

    def from_model(self, unit, model):
        name = unit.split("#")[1] if "#" in unit else None
        if self.which == "wrap":
            v = next((x for k, x in model.items() if k.split("!")[0] == "value"), None)
            u = next((x for k, x in model.items() if k.split("!")[0] == "unsigned"), None)
            if v is None or u is None:
                return None
            m = re.fullmatch(r"\(- (\d+)\)|(\d+)", v.strip())
            return {"value": -int(m.group(1)) if m.group(1) else int(m.group(2)), "unsigned": u.strip() == "true"}
        if name not in OPNAME:
            return None
        if self.which == "apply_binary_op":
            l, r = model_pair(model, "lhs"), model_pair(model, "rhs")
            return None if l is None or r is None else {"op": OPNAME[name], "l": l, "r": r}
        o = model_pair(model, "operand")
        return None if o is None else {"op": OPNAME[name], "l": o}

    def check(self, inp):
        if self.which == "wrap":
            v, u = inp["value"], inp["unsigned"]
            want = (u, v % M if u else ((v % M) - M if (v % M) > IMAX else v % M))
            call = lambda: self.fn(v, u)        # noqa: E731
            kl = "wrap"
        elif self.which == "apply_binary_op":
            l, r = tuple(inp["l"]), tuple(inp["r"])
            if inp["op"] == ">>" and not l[0] and l[1] < 0:
                return None                     # implementation-defined in C: outside the contract
            try:
                want = ev(("bin", inp["op"], ("val", l), ("val", r)))
            except UB:
                return None
            call = lambda: self.fn(inp["op"], _np_of(l), _np_of(r))     # noqa: E731
            kl = "operator:" + inp["op"]
        else:
            l = tuple(inp["l"])
            try:
                want = ev(("un", inp["op"], ("val", l)))
            except UB:
                return None
            call = lambda: self.fn(inp["op"], _np_of(l))     # noqa: E731
            kl = "operator:unary" + inp["op"]
        try:
            got = call()
        except BaseException as e:      # noqa: BLE001
            return {"expected": str(want), "observed": f"raised {type(e).__name__}: {e}", "klass": kl + ":raises"}
        if not isinstance(got, (np.int64, np.uint64)):
            return {"expected": str(want), "observed": f"a {type(got).__name__}: {got!r}", "klass": kl + ":type"}
        if _pair_of(got) != (bool(want[0]), want[1]):
            return {"expected": f"(unsigned={want[0]}, {want[1]})", "observed": f"(unsigned={_pair_of(got)[0]}, {_pair_of(got)[1]})",
                    "klass": kl + ":value"}
        return None

    def encode(self, inp):
        return {k: (list(v) if isinstance(v, tuple) else v) for k, v in inp.items()}

    def decode(self, j):
        return j


def operand_tree(pair):
    """an expression tree whose C value and type are the given operand"""
    u, v = pair
    if u:
        return ("lit", f"{v}u")
    if v >= 0:
        return ("lit", str(v))
    if v == IMIN:
        return ("par", ("bin", "-", ("un", "-", ("lit", str(IMAX))), ("lit", "1")))
    return ("par", ("un", "-", ("lit", str(-v))))


class Conditional(IfArith):
    """c ? a : b on operands of both types, observed through ==, > 0 and < 0 (value and type of the result)"""
    proved = True
    role = "refuter + engine cross-check for the ?: unit (bounded, not counted as proved)"

    def bound(self, tier):
        return "3 conditions x 10 x 10 boundary arms of both types x 3 observations"

    def _mk(self, c, a, b):
        want = ev(("tern", ("val", c), ("val", a), ("val", b)))
        x = ("par", ("tern", operand_tree(c), operand_tree(a), operand_tree(b)))
        out = []
        for obs in (("bin", "==", x, operand_tree(want)), ("bin", ">", x, ("lit", "0")), ("bin", "<", x, ("lit", "0"))):
            out.append({"text": render(obs), "tree": obs})
        return out

    def inputs(self, tier, seed):
        arms = [(False, v) for v in (0, 1, -1, IMIN, IMAX)] + [(True, v) for v in (0, 1, IMAX + 1, M - 1, 7)]
        for c in ((False, 0), (False, 5), (True, 0)):
            for a in arms:
                for b in arms:
                    yield {"c": c, "a": a, "b": b}

    def nontrivial(self, inp):
        return True

    def from_model(self, unit, model):
        c = model_pair(model, "expr")
        subs = sorted((int(k.split("!")[1]), k) for k in model if k.split("!")[0] == "subexpr")
        if c is None or len(subs) < 2:
            return None
        a, b = (model_pair({k: model[k]}, "subexpr") for _, k in subs[:2])
        return {"c": c, "a": a, "b": b}

    def check(self, inp):
        for i in self._mk(tuple(inp["c"]), tuple(inp["a"]), tuple(inp["b"])):
            r = super().check(i)
            if r:
                r["klass"] = "conditional:" + r["klass"]
                r["expression"] = i["text"]
                return r
        return None

    def encode(self, inp):
        return {k: list(v) for k, v in inp.items()}

    def decode(self, j):
        return j


class Spliced(IfArith):
    """the same expressions read from a FILE whose #if line is broken by backslash-newline at arbitrary places (translation
    phase 2 deletes each backslash-newline, so the controlling expression -- and its truth value -- is the unbroken one)"""
    proved = False
    role = "bounded check: #if lines spliced with backslash-newline, read through the real file parser (not counted as proved)"

    def bound(self, tier):
        return (("150" if tier == "quick" else "3000") + " of the seeded expressions, each written to a file with 1-3 backslash-newlines "
                "inserted anywhere outside character constants (before, after and without white space, inside tokens)")

    def inputs(self, tier, seed):
        rng = random.Random(seed * 7919 + 99)
        cs = list(cases(tier, seed))
        for c in rng.sample(cs, min(150 if tier == "quick" else 3000, len(cs))):
            ok, q = [], False
            for i, ch in enumerate(c.text):
                if ch == "'" and (i == 0 or c.text[i - 1] != "\\" or c.text[i - 2:i] == "\\\\"):
                    q = not q
                elif not q and i > 0:
                    ok.append(i)
            sp = c.text
            for pos in sorted(rng.sample(ok, min(rng.randint(1, 3), len(ok))), reverse=True):
                sp = sp[:pos] + "\\\n" + sp[pos:]
            yield {"text": c.text, "spliced": sp, "tree": c.tree}

    def nontrivial(self, inp):
        return "\\\n" in inp["spliced"]

    def check(self, inp):
        import os
        import tempfile
        from codebasin.file_parser import FileParser
        try:
            want = ev(inp["tree"], defined=("DEF",))
        except UB:
            return None
        truth = want[1] != 0
        plat = Platform("p", "/")
        plat.define("DEF", preprocessor.macro_from_definition_string("DEF=1"))
        with tempfile.TemporaryDirectory(prefix="cbi_c02_") as d:
            path = os.path.join(d, "x.c")
            with open(path, "w") as fh:
                fh.write("#if " + inp["spliced"] + "\nint x;\n#endif\n")
            try:
                tree = FileParser(path).parse_file(summarize_only=False, language="c")
                node = [n for n in tree.walk() if isinstance(n, preprocessor.IfNode)][0]
                got = node.evaluate_for_platform(platform=plat, filename=path, state=None)
            except BaseException as e:      # noqa: BLE001
                return {"expected": f"{want} (truth {truth})", "observed": f"raised {type(e).__name__}: {e}", "spliced": inp["spliced"],
                        "klass": "if-arith:spliced:raises:" + classify(inp["tree"], inp["text"])}
        if bool(got) != truth:
            return {"expected": f"{want} (truth {truth})", "observed": str(got), "spliced": inp["spliced"],
                    "klass": "if-arith:spliced:value:" + classify(inp["tree"], inp["text"])}
        return None

    def encode(self, inp):
        return {"text": inp["text"], "spliced": inp["spliced"], "tree": inp["tree"]}

    def decode(self, j):
        def tup(x):
            return tuple(tup(y) for y in x) if isinstance(x, list) else x
        return {"text": j["text"], "spliced": j["spliced"], "tree": tup(j["tree"])}


TARGETS = {"codebasin.preprocessor:ExpressionEvaluator.expression": Conditional(),
           "codebasin.preprocessor:ExpressionEvaluator.__apply_binary_op": Operators("apply_binary_op"),
           "codebasin.preprocessor:ExpressionEvaluator.__apply_unary_op": Operators("apply_unary_op"),
           "codebasin.preprocessor:ExpressionEvaluator.__wrap": Operators("wrap"),
           "codebasin.preprocessor:ExpressionEvaluator.evaluate": IfArith(),
           "codebasin.preprocessor:ExpressionEvaluator.term#recorded-findings": BigLiteral(),
           "codebasin.preprocessor:ExpressionEvaluator.evaluate#spliced-lines": Spliced()}
