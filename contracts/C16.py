"""
Contracts for C16 -- the duplicates report lists exactly the sets of
byte-identical files (codebasin/report.py: find_duplicates).

Spec (from the statement): with NS = enumerated members that are not symbolic
links and Same(p,q) <=> equal content, the result lists exactly the classes
[p]_Same /\ NS of size >= 2, each once.
"""
import z3

from pyvc.contract import contract, lemma, LoopSpec, ObjSpec, CellOf
from pyvc.values import *  # noqa
from pyvc import bigop, ops
from pyvc import fsmodel as F
from pyvc.fsmodel import PATH, DIGEST

CB = Abstract("CodeBase", attrs={"__iter__": PATH, "__contains__": PATH})
PATHSET = SetOf(PATH)
_iter = z3.Function("CodeBase.__iter__", CB.sort(), PATHSET.sort())

p_, q_ = z3.Consts("fd!p fd!q", PATH.sort())
d_ = z3.Const("fd!d", DIGEST.sort())
j_, j2_ = z3.Ints("fd!j fd!j2")


def NS(cb, p):
    return z3.And(_iter(cb)[p], z3.Not(F.is_symlink(p)))


def same(p, q):
    return F.content(p) == F.content(q)


_ClsOf = z3.Function("ClassOf", CB.sort(), PATH.sort(), PATHSET.sort())


def cls(cb, p):
    """ClassOf(cb,p) = { q in NS | Same(p,q) } -- an uninterpreted function with its
    definitional axiom (array extensionality then does the equalities)"""
    if not any(o == "ClassOf" for o, _, _ in bigop._axioms):
        c = z3.Const("co!cb", CB.sort())
        a, b = z3.Consts("co!p co!q", PATH.sort())
        bigop.add_axiom("ClassOf", z3.ForAll([c, a, b], _ClsOf(c, a)[b] == z3.And(NS(c, b), same(a, b)),
                                             patterns=[_ClsOf(c, a)[b]]), "definition of ClassOf")
    return _ClsOf(cb, p)


def has_twin(cb, p):
    # the digest conjunct is implied by A5 (equal content => equal digest); it is spelled out
    # so that the solver has the term digest(q) to work with
    return z3.Exists([q_], z3.And(q_ != p, NS(cb, q_), same(p, q_), F.digest(q_) == F.digest(p)))


def groups_sound(cb, cm, processed):
    """every listed group is the full class of some processed non-link member and has >= 2 elements"""
    p2 = z3.Const("fd!p2", PATH.sort())
    return z3.ForAll([j_], z3.Implies(z3.And(0 <= j_, j_ < cm.n), z3.Exists([p2], z3.And(
        NS(cb, p2), processed(p2), cm.arr[j_] == cls(cb, p2),
        z3.Exists([q_], z3.And(q_ != p2, NS(cb, q_), same(p2, q_)))))))


def groups_complete(cb, cm, processed):
    """every processed non-link member with an identical twin has its class listed"""
    return z3.ForAll([p_], z3.Implies(z3.And(NS(cb, p_), processed(p_), has_twin(cb, p_)),
                                      z3.Exists([j_], z3.And(0 <= j_, j_ < cm.n, cm.arr[j_] == cls(cb, p_)))))


def groups_distinct(cm):
    return z3.ForAll([j_, j2_], z3.Implies(z3.And(0 <= j_, j_ < j2_, j2_ < cm.n), cm.arr[j_] != cm.arr[j2_]))


f = contract("codebasin.report:find_duplicates", props=["C16", "C14", "C15"])
f.param("codebase", CB)
f.local("possible_matches", MapOf(DIGEST, PATHSET))
f.local("confirmed_matches", SeqOf(PATHSET))


@f.requires
def _(A):
    F.install_axioms()
    return []


def buckets_ok(cb, pm, seen):
    return [
        ("bucket[d]=={non-link files seen with digest d}",
         z3.ForAll([d_, p_], z3.Implies(pm.dom[d_], pm.valarr[d_][p_] ==
                                        z3.And(seen[p_], z3.Not(F.is_symlink(p_)), F.digest(p_) == d_)),
                   patterns=[pm.valarr[d_][p_], z3.MultiPattern(pm.dom[d_], F.digest(p_))])),
        ("every-seen-non-link-has-a-bucket",
         z3.ForAll([p_], z3.Implies(z3.And(seen[p_], z3.Not(F.is_symlink(p_))), pm.dom[F.digest(p_)]))),
        ("buckets-finite", z3.ForAll([d_], z3.Implies(pm.dom[d_], bigop.fin(pm.valarr[d_])))),
    ]


f.loop(0, LoopSpec(lambda L: buckets_ok(L.args.codebase.t, L.possible_matches, L.seen.t)))


def _l1(L):
    cb = L.args.codebase.t
    cm = L.confirmed_matches
    done = lambda p: L.seen.t[F.digest(p)]          # noqa: E731
    return [("groups-sound", groups_sound(cb, cm, done)),
            ("groups-complete", groups_complete(cb, cm, done)),
            ("groups-distinct", groups_distinct(cm))]


f.loop(1, LoopSpec(_l1))


def _l2(L):
    cb = L.args.codebase.t
    cm = L.confirmed_matches
    rem = L.remaining.t
    B = L.path_set.t
    d = L.digest.t
    seen1 = L.outer.seen.t
    done = lambda p: z3.Or(seen1[F.digest(p)], z3.And(F.digest(p) == d, z3.Not(rem[p])))       # noqa: E731
    return [
        ("remaining-within-bucket", z3.And(bigop.fin(rem), z3.ForAll([p_], z3.Implies(rem[p_], B[p_])))),
        ("remaining-differs-from-processed-part-of-bucket",
         z3.ForAll([p_, q_], z3.Implies(z3.And(rem[p_], B[q_], z3.Not(rem[q_])), z3.Not(same(p_, q_))))),
        ("groups-sound", groups_sound(cb, cm, done)),
        ("groups-complete", groups_complete(cb, cm, done)),
        ("groups-distinct", groups_distinct(cm)),
    ]


f.loop(2, LoopSpec(_l2, decreases=lambda L: bigop.card(L.remaining.t),
                   hints=lambda L: bigop.card_facts(L.remaining.t)))


def _l3(L):
    first = L.first.t
    return [("matches=={first}+{seen files identical to first}",
             z3.ForAll([q_], L.matches.t[q_] == z3.Or(q_ == first, z3.And(L.seen.t[q_], same(first, q_))))),
            ("matches-finite", bigop.fin(L.matches.t))]


def _l3_post(L):
    """at the end of the comparison pass `matches` is the whole class of `first`"""
    cb = L.args.codebase.t
    first = L.first.t
    return [("matches==class-of-first",
             z3.ForAll([q_], L.matches.t[q_] == z3.And(NS(cb, q_), same(first, q_)))),
            ("matches==ClassOf(first) (by extensionality)", L.matches.t == cls(cb, first))]


f.loop(3, LoopSpec(_l3, post=_l3_post))


@f.ensures
def _(A, R):
    cb = A.codebase.t
    res = R.result
    true = lambda p: z3.BoolVal(True)        # noqa: E731
    return [("every-group-is-a-full-class-of-identical-non-link-files-of-size>=2", groups_sound(cb, res, true)),
            ("every-file-with-an-identical-twin-is-listed", groups_complete(cb, res, true)),
            ("no-group-listed-twice", groups_distinct(res))]


UNITS = ["codebasin.report:find_duplicates"]
ASSUMPTIONS = [
    "A5 hashlib.file_digest(f,'sha512') is a function of the content; filecmp.cmp(a,b,shallow=False) <=> equal content",
    "A4 static file system; I/O errors not modelled; the code base enumerates a finite set of paths",
]
NOT_COVERED = ["the printed form of the report (duplicates())"]
EXPLANATION = ("find_duplicates is proved, by a partition-refinement argument over its four nested loops, to return exactly "
               "the content-equality classes of size >= 2 among the non-link members, each once.")
