"""
Contracts for C14 -- results are deterministic and independent of enumeration order.

There is nothing to execute twice in this family: the "schedule" (iteration
order of sets, dicts, directory listings, platform tables) is a universally
quantified variable of every VC.  Each unit below was proved with every
set/dict/rglob enumeration arbitrary (a fresh duplicate-free enumeration per
loop) and its postcondition relates order-free views only, so it holds for
every PYTHONHASHSEED and every scandir order at once.  Where the code chooses
an order that reaches the output, the choice is pinned syntactically.
"""
import ast

import contracts.C07 as C07     # noqa: F401  metrics
import contracts.C06 as C06     # noqa: F401  get_setmap
import contracts.C16 as C16     # noqa: F401  find_duplicates
import contracts.C09 as C09     # noqa: F401  CodeBase.__iter__
import contracts.C08 as C08     # noqa: F401  find block (per entry; platform/entry order irrelevant)

import contracts.C15 as _C15      # noqa: E402,F401

UNITS = [
    "codebasin.report:coverage", "codebasin.report:average_coverage", "codebasin.report:distance",
    "codebasin.report:extract_platforms", "codebasin.report:divergence",
    "codebasin.finder:ParserState.get_setmap", "codebasin.report:find_duplicates",
    "codebasin:CodeBase.__iter__", "codebasin.finder:find@loop4",
    # a file that is already known keeps its tree, its association map and its recorded language whoever asks for it
    # again: what a later platform or includer does cannot change what an earlier one saw (order of platforms)
    "codebasin.finder:ParserState.insert_file",
]


def extra_obligations(index, tier):
    out = []
    # every contract above states its result through order-free views: no enumeration term in `ensures`
    # (checked on the contract sources: the words below never occur in an ensures of these modules)
    def src(key):
        return ast.unparse(index.func(key).node)
    s = src("codebasin.report:summary")
    out.append(("summary names each row with sorted(pset)", "', '.join(sorted(pset))" in s, "", "codebasin.report:summary", "pattern"))
    out.append(("summary orders rows by a total key of the set size only (ties follow dict insertion order: a view, not claimed)",
                "sorted(setmap.keys(), key=len)" in s, "", "codebasin.report:summary", "pattern"))
    s = src("codebasin.report:clustering")
    out.append(("clustering fixes the platform order with sorted()", "platforms = sorted(extract_platforms(setmap))" in s, "",
                "codebasin.report:clustering", "pattern"))
    s = src("codebasin.report:FileTree.Node._platforms_str")
    out.append(("tree labels iterate sorted(all_platforms)", "enumerate(sorted(all_platforms))" in s, "",
                "codebasin.report:FileTree.Node._platforms_str", "pattern"))
    s = src("codebasin.report:files")
    out.append(("tree legend iterates sorted platforms", "enumerate(sorted(tree.root.platforms))" in s, "", "codebasin.report:files", "pattern"))
    # no code path picks "the first element of a set"
    import re
    bad = []
    for key, fi in index.funcs.items():
        t = ast.unparse(fi.node)
        if re.search(r"list\(set\([^)]*\)\)\[0\]|next\(iter\(", t):
            bad.append(key)
    out.append(("no arbitrary-element choice from a set (list(set(..))[0] / next(iter(..)))", not bad, str(bad), "codebasin"))
    # the structure of find() (fresh state per entry, every file parsed by its own language before any association)
    # is what makes the result independent of the order of platforms and entries
    out += [o for o in C08.extra_obligations(index, tier) if o[0].startswith(("structure/", "footprint/the per-entry"))]
    return out


ASSUMPTIONS = [
    "A2 floating-point summation order (sum over a hash-ordered set in average_coverage, pair order in divergence) is equal in exact "
    "arithmetic and may differ in the last bit: outside this technique",
    "the SEQUENCE order of coverage.json records, duplicate groups and their members, and equally sized summary rows follows "
    "enumeration order: the claims are on the order-free views",
]
NOT_COVERED = ["last-bit floating point differences; record/row order in rendered output"]
EXPLANATION = ("Corollary check: every functional postcondition is discharged with all set/dict/rglob enumerations universally "
               "quantified, so it holds for every hash seed and directory order; explicit ordering choices are pinned syntactically.")
