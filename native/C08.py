"""Native bounded stand-in for C08: multi-platform / multi-entry model code bases
analysed in one run, in the given order and with platforms and entries
reversed, each compared per platform with the reference preprocessor applied
to every entry alone from a fresh macro/include state (so isolation,
projection under -p and order independence are all consequences)."""
import os

from native import gen, sysrun
from native.systarget import SysTarget


class Isolation(SysTarget):
    def compare(self, sb, case, cfg, exp, used, state):
        r = super().compare(sb, case, cfg, exp, used, state)
        if r:
            return r
        # reversed platform and entry order
        rcfg = {p: list(reversed(cfg[p])) for p in reversed(list(cfg))}
        _, st2 = sysrun.real_find(sb.root, rcfg, [sb.abs(case["codebase"])], case["excludes"])
        r = super().compare(sb, case, rcfg, exp, sysrun.real_used(st2), st2)
        if r:
            r["klass"] = self.name + ":order-dependent"
            return r
        # projection: every platform analysed alone gives the same lines
        for p in cfg:
            _, st3 = sysrun.real_find(sb.root, {p: cfg[p]}, [sb.abs(case["codebase"])], case["excludes"])
            r = super().compare(sb, case, {p: cfg[p]}, exp, sysrun.real_used(st3), st3)
            if r:
                r["klass"] = self.name + ":projection-differs"
                return r
        return None


TARGETS = {"codebasin.finder:find@loop4": Isolation("isolation", ("multi", "forced", "computed"), quick_n=250, thorough_n=4000)}
