"""
Contracts for C09 -- code-base membership (codebasin/__init__.py: CodeBase,
codebasin/source.py).  Also used by C10 (exclusion) and C15 (links).

Member(p) <=> p names an existing file and, with r = resolve(p): r is not a directory, has a
recognised source suffix, lies below some code-base directory, and is not
matched by the exclude patterns relative to the FIRST such directory.
The git conformance of the matcher itself (pathspec) is an assumed dependency
contract (A6) and is NOT claimed.
"""
import ast
import z3

from pyvc.contract import contract, lemma, LoopSpec, ObjSpec, CellOf
from pyvc.values import *  # noqa
from pyvc import bigop, ops
from pyvc import fsmodel as F
from pyvc.fsmodel import PATH, PATTERNS

CBOBJ = ObjSpec("CodeBase", {"_directories": CellOf(SeqOf(PATH)), "_excludes": PATTERNS})
OPATH = Opt(PATH)
i_, j_ = z3.Ints("cb!i cb!j")


def ext_ok(index, r):
    """suffix(r) is one of the extensions listed in is_source_file (read from the ast)"""
    fi = index.func("codebasin.source:is_source_file")
    exts = None
    for n in ast.walk(fi.node):
        if isinstance(n, ast.Assign) and getattr(n.targets[0], "id", "") == "supported_extensions":
            exts = [e.value for e in n.value.elts]
    return z3.Or([F.suffix(r) == z3.StringVal(e) for e in exts]), exts


_INDEX = {}


def member(dirs, patterns, p):
    r = F.realpath(p)
    ok_ext, _ = ext_ok(_INDEX["index"], r)
    first = z3.And(0 <= i_, i_ < dirs.n, F.below(r, dirs.arr[i_]),
                   z3.ForAll([j_], z3.Implies(z3.And(0 <= j_, j_ < i_), z3.Not(F.below(r, dirs.arr[j_])))))
    # existence is a fact about the path AS SPELLED (`nosuch/../f.c` names nothing although its lexical resolution does)
    return z3.And(F.exists(p), z3.Not(F.is_dir(r)), ok_ext,
                  z3.Exists([i_], z3.And(first, z3.Not(F.ignored(patterns, F.relto(r, dirs.arr[i_]))))))


c = contract("codebasin:CodeBase.__contains__", props=["C09", "C10", "C15"])
c.param("self", CBOBJ).param("path", PATH).result(BOOL)
c.local("root", OPATH)


def _setup(ctx, st):
    F.install_axioms()
    _INDEX["index"] = ctx.index


c.setup = _setup


@c.ensures
def _(A, R):
    return [("result==Member(resolve(path)): exists, not a directory, source suffix, below a code-base directory, "
             "not excluded relative to the first such directory",
             R.result.t == member(A.self._directories, A.self._excludes.t, A.path.t))]


c.loop(0, LoopSpec(lambda L: [
    ("no-earlier-directory-contains-the-path",
     z3.ForAll([j_], z3.Implies(z3.And(0 <= j_, j_ < L.i), z3.Not(F.below(L.path.t, L.seq.arr[j_]))))),
    ("root-not-yet-chosen", L.root.is_none()),
]))

# ------------------------------------------------------------------ __iter__
it = contract("codebasin:CodeBase.__iter__", props=["C09", "C14"])
it.param("self", CBOBJ)


def _iter_setup(ctx, st):
    from pyvc.state import HeapObj
    _setup(ctx, st)
    st.ghost["yield_cell"] = st.alloc(HeapObj("cell", val=VSet.empty(PATH)))


it.setup = _iter_setup
p_ = z3.Const("cb!p", PATH.sort())


def _below_dirs(dirs, upto, p):
    return z3.Exists([j_], z3.And(0 <= j_, j_ < upto, F.rglob_all(dirs.arr[j_])[p]))


def _listed(L):
    v = L.listed
    return v.t if isinstance(v, VSet) else z3.K(PATH.sort(), z3.BoolVal(False))


it.loop(0, LoopSpec(lambda L: [
    ("yielded=={members enumerated below the directories so far}",
     z3.ForAll([p_], L.yielded.t[p_] == z3.And(_below_dirs(L.args.self._directories, L.i, p_),
                                               member(L.args.self._directories, L.args.self._excludes.t, p_)))),
    ("listed==yielded (what has been listed is not listed again)", z3.ForAll([p_], _listed(L)[p_] == L.yielded.t[p_]))],
    kinds={"listed": SetOf(PATH)}))
it.loop(1, LoopSpec(lambda L: [
    ("yielded=={members of earlier directories}+{members seen in this directory}",
     z3.ForAll([p_], L.yielded.t[p_] == z3.And(
         z3.Or(_below_dirs(L.args.self._directories, L.outer.i, p_), L.seen.t[p_]),
         member(L.args.self._directories, L.args.self._excludes.t, p_)))),
    ("listed==yielded", z3.ForAll([p_], _listed(L)[p_] == L.yielded.t[p_]))],
    kinds={"listed": SetOf(PATH)}))


@it.ensures
def _(A, R):
    dirs = A.self._directories
    return [("enumeration yields exactly the member files found below the code-base directories",
             z3.ForAll([p_], R.yielded.t[p_] == z3.And(_below_dirs(dirs, dirs.n, p_),
                                                       member(dirs, A.self._excludes.t, p_))))]


# ------------------------------------------------------- extension tables agree
def extra_obligations(index, tier):
    _INDEX["index"] = index
    _, exts = ext_ok(index, z3.Const("x", PATH.sort()))
    ci = index.class_by_name["FileLanguage"]
    table = []
    for node in ci.node.body:
        if isinstance(node, ast.Assign) and isinstance(node.targets[0], ast.Subscript) \
                and getattr(node.targets[0].value, "id", "") == "_language_extensions":
            table += [e.value for e in node.value.elts]
    out = [("extension-table/is_source_file==union of FileLanguage._language_extensions",
            sorted(exts or []) == sorted(table) and len(set(exts)) == len(exts), f"{sorted(set(exts) ^ set(table))}",
            "codebasin.source:is_source_file")]
    # the matcher is GitIgnoreSpec built from exactly the exclude patterns
    fi = index.func("codebasin:CodeBase.__contains__")
    src = ast.unparse(fi.node)
    init = "".join(ast.unparse(index.func("codebasin:CodeBase.__init__").node).split())
    prop_ = "".join(ast.unparse(index.func("codebasin:CodeBase.exclude_patterns").node).split())
    out.append(("the exclude list is kept exactly as given (order matters: last matching pattern wins)",
                "self._excludes=exclude_patterns" in init and "returnself._excludes" in prop_, "", "codebasin:CodeBase.__init__", "pattern"))
    out.append(("matcher/GitIgnoreSpec.from_lines(self.exclude_patterns)",
                "pathspec.GitIgnoreSpec.from_lines(self.exclude_patterns)" in src, "", "codebasin:CodeBase.__contains__", "pattern"))
    return out


UNITS = ["codebasin:CodeBase.__contains__", "codebasin:CodeBase.__iter__"]
ASSUMPTIONS = [
    "A4 static file system; Path.resolve == os.path.realpath; is_relative_to / relative_to / rglob('*') as uninterpreted relations",
    "A6 pathspec.GitIgnoreSpec: match_file is an uninterpreted function of (patterns, relative path); gitignore conformance is pathspec's and is not verified",
    "__iter__ is modelled by the SET of yielded paths (order / multiplicity for overlapping directories outside the model)",
]
NOT_COVERED = ["git's .gitignore semantics itself (third-party pathspec): assumed, not claimed",
               "rglob really enumerating every regular file below the directory (assumed stub, A4)"]
EXPLANATION = ("CodeBase.__contains__ is proved to compute the membership formula on the resolved path (so spelling and links "
               "do not matter), __iter__ to yield exactly the members found below the directories.")
