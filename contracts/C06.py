"""
Contracts for C06 -- every counted line lands in exactly one platform set;
reports agree.  (finder.ParserState.get_setmap, report.summary arithmetic,
report.FileTree, coverage._compute)
"""
import z3

from pyvc.contract import contract, lemma, LoopSpec, ObjSpec, CellOf
from pyvc.values import *  # noqa
from pyvc import bigop, ops
from pyvc.bigop import BigSum, PrefixSum
from pyvc import fsmodel as F
from pyvc.fsmodel import PATH
from pyvc.speclib import P, PSet
import contracts.C15 as C15
from contracts.C15 import NODE, TREE, ASSOCV, PSTATE, cache_valid

CB = Abstract("CodeBase", attrs={"__iter__": PATH, "__contains__": PATH})
SETMAP = MapOf(PSet, INT)

_walk = TREE.method_fn("walk")
_wk = SeqOf(NODE)
_num = NODE.attr_fn("num_lines", INT)
_isa = z3.Function("Node.isa:CodeNode", NODE.sort(), z3.BoolSort())
_iter = z3.Function("CodeBase.__iter__", CB.sort(), SetOf(PATH).sort())
_in = z3.Function("CodeBase.__contains__", CB.sort(), PATH.sort(), z3.BoolSort())

_memo = {}


def FileSum():
    """FileSum(tree, assoc, S, n): lines of the first n nodes of walk(tree) that are
    code nodes attributed to exactly the platform set S"""
    if "fs" not in _memo:
        def term(tree, assoc, S, i):
            nd = _wk.wrap(_walk(tree)).arr[i]
            return z3.If(z3.And(_isa(nd), assoc[nd] == S), _num(nd), 0)
        _memo["fs"] = PrefixSum("FileSum", [("tree", TREE.sort()), ("assoc", ASSOCV.sort()), ("S", PSet.sort())], term)
    return _memo["fs"]


def skipped(cb, f):
    """a symbolic link whose target is in the code base adds nothing"""
    return z3.And(F.is_symlink(f), _in(cb, F.realpath(f)))


def file_total(trees_val, maps_val, S, f):
    rp = F.realpath(f)
    tree = trees_val[rp]
    return FileSum()(tree, maps_val[rp], S, _wk.wrap(_walk(tree)).n)


def Total():
    """Total(trees, maps, cb, S, files): sum over the enumerated files that are not
    skipped links of their per-file line count for platform set S"""
    if "tot" not in _memo:
        tv = z3.ArraySort(PATH.sort(), TREE.sort())
        mv = z3.ArraySort(PATH.sort(), ASSOCV.sort())
        _memo["tot"] = BigSum("SetmapTotal", [("trees", tv), ("maps", mv), ("cb", CB.sort()), ("S", PSet.sort())],
                              PATH.sort(),
                              lambda trees, maps, cb, S, f: z3.If(skipped(cb, f), 0, file_total(trees, maps, S, f)))
    return _memo["tot"]


def get0(m, S):
    return z3.If(m.dom[S], m.valarr[S], 0)


g = contract("codebasin.finder:ParserState.get_setmap", props=["C06", "C10", "C14", "C15"])
g.param("self", PSTATE).param("codebase", CB)
g.local("setmap", MapOf(PSet, INT))
g.modifies = ["self._path_cache"]


@g.requires
def _(A):
    F.install_axioms()
    f = z3.Const("gs!f", PATH.sort())
    return C15.state_inv(A.self) + [
        ("every-enumerated-file-has-been-parsed (find() pre-parses the code base)",
         z3.ForAll([f], z3.Implies(_iter(A.codebase.t)[f], A.self.trees.dom[F.realpath(f)]))),
        ("walk-length-nonnegative", z3.BoolVal(True)),
    ]


def _outer_inv(L):
    S = z3.Const("gs!S", PSet.sort())
    s = L.args.self
    return [("setmap==sum-over-files-seen", z3.ForAll([S], get0(L.setmap, S) == Total()(
        s.trees.valarr, s.maps.valarr, L.args.codebase.t, S, L.seen.t))),
        ("path-cache-valid", cache_valid(L.self._path_cache))]


def _inner_inv(L):
    S = z3.Const("gs!S", PSet.sort())
    tree = L.tree.get().t
    assoc = L.association.get().t
    return [("setmap==setmap-at-file-start+lines-of-nodes-so-far",
             z3.ForAll([S], get0(L.setmap, S) == get0(L.entry.setmap, S) + FileSum()(tree, assoc, S, L.i)))]


def _inner_hints(L):
    S = z3.Const("gs!S", PSet.sort())
    tree = L.tree.get().t
    assoc = L.association.get().t
    return [z3.ForAll([S], FileSum().step((tree, assoc, S), L.i))]


g.loop(0, LoopSpec(_outer_inv))
g.loop(1, LoopSpec(_inner_inv, hints=_inner_hints))


@g.ensures
def _(A, R):
    S = z3.Const("gs!S", PSet.sort())
    s = A.self
    res = R.result
    return [("one-platform-set-per-line: result[S]==sum over canonical files of the lines attributed to exactly S",
             z3.ForAll([S], get0(res, S) == Total()(s.trees.valarr, s.maps.valarr, A.codebase.t, S,
                                                    _iter(A.codebase.t))))]


# ================================================================ FileTree.insert: one level of the path walk
# The body of `for path in list(reversed(filepath.parents)) + [filepath]` as a unit: what one level does to the node
# it stands on (the directory above `path`) and which node the walk moves to.  Summing over the levels gives the tree
# figures of the property ("every directory's figures are the sums over the files listed beneath it"; a symbolic link
# adds nothing to any directory).  The composition over the levels is the bounded part (native TreeReport).
FTNODE = Atom("FileTreeNode")
FT_PARENT = ObjSpec("Node", {"setmap": CellOf(DefaultMapOf(PSet, INT, VInt(z3.IntVal(0)))),
                             "children": CellOf(MapOf(PATH, FTNODE))})


def _new_ftnode(ex, st, pos, kw, node):
    n = FTNODE.fresh(ex.ctx, "new_node")
    st.ghost["created"] = (n, [ops.deref(st, a) if not isinstance(a, VNone) else a for a in pos], dict(kw))
    return [(st, n)]


ft = contract("codebasin.report:FileTree.insert@loop0", props=["C06", "C15"])
ft.param("path", PATH).param("rootpath", PATH).param("filepath", PATH).param("setmap", SETMAP).param("parent", FT_PARENT)
ft.modifies = ["parent", "parent.setmap", "parent.children"]
ft.opaque = {"class:FileTree.Node": _new_ftnode, "class:Node": _new_ftnode}
ft.setup = lambda ctx, st: F.install_axioms()


@ft.ensures
def _(A, R):
    S = z3.Const("ft!S", PSet.sort())
    skip = z3.Or(A.path.t == A.rootpath.t, z3.Not(F.below(A.path.t, A.rootpath.t)))
    pobj = A.raw("parent")                      # the node the level stands on (the local `parent` moves on)

    def now(field):
        return R.st.heap[R.st.heap[pobj.oid].fields[field].oid].val
    old_sm, new_sm = A.parent.setmap, now("setmap")
    old_ch, new_ch = A.parent.children, now("children")
    moved = R.new.raw("parent")
    moved = None if (isinstance(moved, VObj) and moved.oid == pobj.oid) else ops.deref(R.st, moved)
    link = F.is_symlink(A.filepath.t)
    add = z3.If(z3.And(z3.Not(link), A.setmap.dom[S]), A.setmap.valarr[S], 0)
    val = lambda m, k: z3.If(m.dom[k], m.valarr[k], 0)      # noqa: E731  (defaultdict(int): a missing key reads as 0)
    name = F.basename(A.path.t)
    newp = moved
    created = R.st.ghost.get("created")
    out = [
        ("levels at or above the root are skipped without any effect",
         z3.Implies(skip, z3.And(z3.ForAll([S], val(new_sm, S) == val(old_sm, S)), new_ch.dom == old_ch.dom, new_ch.valarr == old_ch.valarr,
                                 z3.BoolVal(newp is None)))),
        ("the node above this level receives the file's lines, set by set - unless the FILE is a symbolic link (then nothing is added)",
         z3.Implies(z3.Not(skip), z3.ForAll([S], val(new_sm, S) == val(old_sm, S) + add))),
    ]
    if newp is None:
        out.append(("the walk moves down one level", skip))
        return out
    if created is None:
        out += [("an existing child of that name is reused, nothing is attached",
                 z3.Implies(z3.Not(skip), z3.And(old_ch.dom[name], newp.t == old_ch.valarr[name], new_ch.dom == old_ch.dom,
                                                 new_ch.valarr == old_ch.valarr)))]
    else:
        n, pos, kw = created
        is_dir = F.is_dir(A.path.t)
        with_map = len(pos) == 2 and isinstance(pos[1], VMap)
        out += [("a new node is attached under the level's name only when no child has that name, and the walk moves to it",
                 z3.Implies(z3.Not(skip), z3.And(z3.Not(old_ch.dom[name]), newp.t == n.t,
                                                 new_ch.dom == z3.Store(old_ch.dom, name, True), new_ch.valarr == z3.Store(old_ch.valarr, name, n.t)))),
                ("the new node is made for this level's path", z3.BoolVal(len(pos) >= 1) if not pos else pos[0].t == A.path.t),
                ("a file node carries the file's own figures, a directory node starts empty",
                 z3.Implies(z3.Not(skip), z3.Not(is_dir) if with_map else is_dir)),
                ]
        if with_map:
            out.append(("the figures handed to a file node are the file's", z3.And(pos[1].dom == A.setmap.dom, pos[1].valarr == A.setmap.valarr)))
    return out


def _ft_inv(L):
    S = z3.Const("fti!S", PSet.sort())
    val = lambda m, k: z3.If(m.dom[k], m.valarr[k], 0)      # noqa: E731
    e = L.entry
    return [("parent.setmap == entry + the sets seen so far",
             z3.ForAll([S], val(L.parent.setmap, S) == val(e.parent.setmap, S)
                       + z3.If(L.seen.t[S], L.args.setmap.valarr[S], 0))),
            ("children untouched", z3.And(L.parent.children.dom == e.parent.children.dom, L.parent.children.valarr == e.parent.children.valarr))]


ft.loop(1, LoopSpec(_ft_inv))

UNITS = ["codebasin.finder:ParserState.get_setmap", "codebasin.report:FileTree.insert@loop0"]
ASSUMPTIONS = [
    "A4 static file system; code base enumeration is an arbitrary duplicate-free enumeration of a finite set of paths",
    "tree.walk() is a pure function of the tree (list of nodes); a node's num_lines does not change while counting",
]
NOT_COVERED = ["rendered text of the reports (tabulate, f-strings, JSON)",
               "FileTree.insert: the composition of its levels over a whole path and over all files (tree sums == summary) is bounded (native TreeReport); "
               "one level is proved"]
EXPLANATION = ("get_setmap is proved to compute, per platform set, the sum over canonical files of the lines of code nodes attributed to exactly "
               "that set; one level of FileTree.insert is proved to add the file's figures to the directory above it (nothing for a symbolic "
               "link), to reuse or create exactly one child, and to move on to it.")
