"""
pyvc.check -- `./check <Cxx> [--tier quick|thorough] [--replay file]`

Exit codes: 0 property held on everything explored / 1 violation (VIOLATION
line printed) / 2 undecided (an obligation is neither discharged nor refuted,
unsupported syntax, vanished name) / 3 checker error (engine and native run
disagree, solver disagreement, crash).
"""
import argparse
import hashlib
import importlib
import json
import os
import subprocess
import sys
import time
import traceback

VERIF = os.path.dirname(os.path.dirname(os.path.abspath(__file__)))
NATIVE_PY = os.environ.get("CBI_NATIVE_PY", "/venv/bin/python")


def load_known():
    p = os.path.join(VERIF, "known_findings.json")
    if not os.path.exists(p):
        return []
    with open(p) as fh:
        return [e for e in json.load(fh).get("findings", []) if e.get("status", "open") == "open"]


def run_native(prop, tier, seed, extra=None, timeout=3600):
    cmd = [NATIVE_PY, os.path.join(VERIF, "native", "harness.py"), prop, "--tier", tier, "--seed", str(seed)]
    if extra:
        cmd += extra
    env = dict(os.environ)
    env["PYTHONPATH"] = VERIF + os.pathsep + env.get("PYTHONPATH", "")
    env["PYTHONWARNINGS"] = "ignore"
    p = subprocess.run(cmd, capture_output=True, text=True, timeout=timeout, env=env, cwd=VERIF)
    if p.returncode != 0:
        raise RuntimeError(f"native harness failed ({p.returncode}): {p.stderr[-2000:]}")
    return json.loads(p.stdout.strip().splitlines()[-1])


def main(argv=None):
    ap = argparse.ArgumentParser()
    ap.add_argument("prop")
    ap.add_argument("--tier", default=os.environ.get("VERIF_TIER", "quick"))
    ap.add_argument("--replay")
    ap.add_argument("--timeout", type=int)
    ap.add_argument("--verbose", "-v", action="store_true")
    args = ap.parse_args(argv)
    prop = args.prop
    seed = int(os.environ.get("VERIF_SEED", "0"))
    if args.replay:
        return replay(prop, args.replay)
    try:
        return run_check(prop, args.tier, seed, args.timeout, args.verbose)
    except Exception:
        traceback.print_exc()
        print(f"CHECKER-ERROR property={prop}")
        return 3


def replay(prop, path):
    with open(path) as fh:
        rep = json.load(fh)
    if "input" not in rep or rep.get("input") is None:
        print(f"replay file {path} carries no concrete input (failed obligation {rep.get('obligation')});")
        print(rep.get("solver_output", ""))
        return 1
    out = run_native(prop, "quick", 0, ["--replay", path])
    res = out["replay"]
    print(json.dumps(res, indent=1))
    if res["fails"]:
        print(f"REPLAY reproduces: property={prop} function={rep['function']}")
        return 1
    print("REPLAY does not reproduce on this tree")
    return 0


def run_check(prop, tier, seed, timeout, verbose):
    from . import bigop, speclib, contract as C
    from .source import SourceIndex
    from .engine import verify_function, discharge, close_pool
    from .stubs import ASSUMED

    t0 = time.time()
    timeout = timeout or (20 if tier == "quick" else 60)
    index = SourceIndex()
    mod = importlib.import_module(f"contracts.{prop}")
    contracts = C.all_contracts()
    units = getattr(mod, "UNITS", None) or [k for k, c in contracts.items() if prop in c.props]
    lemmas = [l for l in C.all_lemmas() if prop in l.props]
    assumptions = list(getattr(mod, "ASSUMPTIONS", []))
    violations, known_lines, undecided, errors, notes = [], [], [], [], []
    all_obs, all_covers, unit_results = [], [], []
    for key in units:
        c = contracts[key]
        r = verify_function(index, contracts, c, props_filter=[prop])
        unit_results.append(r)
        if r.error:
            undecided.append(f"{key}: {r.error}")
        for ob in r.obligations:
            ob.unit = key
        all_obs.extend(r.obligations)
        all_covers.extend((n, h, key) for n, h in r.covers)
    # spec-level lemmas
    from .state import Obligation
    for lem in lemmas:
        try:
            for label, hyps, goal in lem.build():
                ob = Obligation(f"lemma:{lem.name}/{label}", hyps, goal, "lemma", None, lem.props, "lemma:" + lem.name)
                all_obs.append(ob)
        except Exception as e:
            undecided.append(f"lemma {lem.name}: {e}")
    # table / syntactic obligations supplied by the contract module
    extra_fn = getattr(mod, "extra_obligations", None)
    extra_results = []
    if extra_fn:
        extra_results = [tuple(x) + (("table",) if len(x) == 4 else ()) for x in extra_fn(index, tier)]
        # [(name, ok, detail, function_key, kind)]: kind "table" = a value read from the ast differs from the
        # specification table (failed obligation); kind "pattern" = the statement implementing a fact was not
        # recognised (may be a refactoring): undecided unless the native run exhibits a failing input
    cover_res = discharge(all_obs, [(n, h) for n, h, _ in all_covers], timeout=timeout,
                          crosscheck=(tier == "thorough"))
    close_pool()
    # vacuity guards
    for (name, ans, solver, dt), (_, _, key) in zip(cover_res, all_covers):
        if ans == "unsat":
            if name.endswith("requires-satisfiable"):
                errors.append(f"vacuous precondition: {name}")
            # dead return paths are listed, not fatal
    per_unit_counts = {}
    for ob in all_obs:
        per_unit_counts[ob.unit] = per_unit_counts.get(ob.unit, 0) + 1
    for r in unit_results:
        if not r.error and per_unit_counts.get(r.key, 0) == 0:
            errors.append(f"no obligations generated for {r.key}")
    base_path = os.path.join(VERIF, "baseline", f"{prop}.json")
    baseline = {}
    if os.path.exists(base_path):
        with open(base_path) as fh:
            baseline = json.load(fh)
    for key, n in baseline.get("obligation_counts", {}).items():
        if key in per_unit_counts and per_unit_counts[key] < n and not any(r.key == key and r.error for r in unit_results):
            errors.append(f"obligation count for {key} dropped from {n} to {per_unit_counts[key]} (generator skipped something?)")
    failed = [ob for ob in all_obs if ob.status != "unsat"]
    failed += [_FakeOb(n, d, k, kind) for n, ok, d, k, kind in extra_results if ok is False]
    if tier == "thorough":
        for ob in all_obs:
            cr = getattr(ob, "cross", None)
            if cr and cr[1] == "sat":
                errors.append(f"solver disagreement on {ob.name}: {ob.solver}=unsat, {cr[0]}=sat")
    # native run: bounded stand-in + refuter + differential check of the engine
    native = {}
    native_err = None
    if os.path.exists(os.path.join(VERIF, "native", f"{prop}.py")):
        try:
            extra = None
            models = {}
            for ob in failed:
                if getattr(ob, "model", None):
                    models.setdefault(ob.unit, []).append({"obligation": ob.name, "model": ob.model})
            if models:          # the solver's counterexamples, to be replayed on the real functions
                os.makedirs(os.path.join(VERIF, "replays", prop), exist_ok=True)
                mpath = os.path.join(VERIF, "replays", prop, "_models.json")
                with open(mpath, "w") as fh:
                    json.dump(models, fh)
                extra = ["--models", mpath]
            native = run_native(prop, tier, seed, extra)
        except Exception as e:
            native_err = str(e)
            errors.append(f"native harness: {e}")
    known = load_known()
    replay_dir = os.path.join(VERIF, "replays", prop)
    n_viol = 0
    failing_units = {}
    for ob in failed:
        failing_units.setdefault(ob.unit, []).append(ob)
    reported_native = set()
    for unit, obs in failing_units.items():
        import re as _re
        _t = native.get("targets", {})
        nat = _t.get(unit) or _t.get(unit.split("#")[0]) or _t.get(_re.sub(r"@loop\d+", "", unit.split("#")[0]))
        fails = nat["failures"] if nat else []
        # the verifier's own counterexample, when it reproduces on the real function, comes first
        from_model = [dict(r["detail"], how_found="the solver's counterexample for obligation "
                           f"{r['obligation']} replayed on the real function") for r in native.get("model_replays", [])
                      if r.get("unit") == unit and r.get("fails")]
        fails = from_model + list(fails)
        new_fails = []
        for f in fails:
            k = match_known(known, prop, unit, f)
            if k:
                known_lines.append(f"KNOWN-FINDING: property={prop} {k['what']} [function={unit} class={f.get('klass')}]")
            else:
                new_fails.append(f)
        reported_native.add(unit)
        if new_fails:
            f = new_fails[0]
            path = write_replay(replay_dir, prop, unit, obs, f, index)
            violations.append(f"VIOLATION property={prop} replay={path}")
        elif fails:
            # every native failure is a listed finding; are all failed obligations explained by them?
            unexplained = [ob for ob in obs if not any(k.get("function") == unit and ob_matches(k, ob) for k in known)]
            for ob in unexplained:
                if ob.status == "sat":
                    path = write_replay(replay_dir, prop, unit, [ob], None, index)
                    violations.append(f"VIOLATION property={prop} replay={path} no-failing-input-found")
                else:
                    undecided.append(f"{ob.name}: {ob.status} (no native counterexample beyond known findings)")
        else:
            sat = [ob for ob in obs if ob.status == "sat"]
            if sat:
                path = write_replay(replay_dir, prop, unit, sat, None, index)
                violations.append(f"VIOLATION property={prop} replay={path} no-failing-input-found")
            for ob in obs:
                if ob.status != "sat":
                    undecided.append(f"{ob.name}: {ob.status} (solver gave no verdict; no failing input found natively)")
    # native failures for units whose obligations all discharged: engine/spec disagreement
    for unit, nat in native.get("targets", {}).items():
        if unit in reported_native:
            continue
        for f in nat["failures"]:
            k = match_known(known, prop, unit, f)
            if k:
                known_lines.append(f"KNOWN-FINDING: property={prop} {k['what']} [function={unit} class={f.get('klass')}]")
            else:
                if nat.get("proved", True) and any(r.key == unit and not r.error for r in unit_results) \
                        and not any(ob.unit == unit and ob.status != "unsat" for ob in all_obs):
                    # every obligation of the unit is discharged, yet an input fails on the real code: the failing
                    # input is what counts (it replays); the cause is code outside the unit that the native run goes
                    # through (constructors, callers) or a gap in the contract -- noted in the evidence
                    notes.append(f"native failure on {unit} although all its obligations are discharged "
                                 f"(code outside the unit, or a contract gap): {json.dumps(f)[:200]}")
                path = write_replay(replay_dir, prop, unit, [], f, index)
                violations.append(f"VIOLATION property={prop} replay={path}")
                break
    wall = time.time() - t0
    write_evidence(prop, tier, seed, mod, index, unit_results, all_obs, extra_results, cover_res, all_covers,
                   native, assumptions, wall, len(violations), undecided, errors, known_lines, timeout)
    for l in sorted(set(known_lines)):
        print(l)
    for l in notes:
        print("NOTE " + l)
    n_ob = len(all_obs) + len(extra_results)
    n_ok = sum(1 for ob in all_obs if ob.status == "unsat") + sum(1 for x in extra_results if x[1])
    print(f"{prop} [{tier}]: {n_ok}/{n_ob} obligations discharged over {len(units)} functions + {len(lemmas)} lemmas; "
          f"native evaluations={sum(t.get('evaluations', 0) for t in native.get('targets', {}).values())}; {wall:.1f}s")
    if verbose or failed:
        for ob in failed:
            print(f"  not discharged: {ob.name} [{ob.status}]")
    for v in violations:
        print(v)
    if violations:
        return 1
    if errors:
        for e in errors:
            print("CHECKER-ERROR:", e)
        return 3
    if undecided:
        for u in undecided:
            print("UNDECIDED:", u)
        return 2
    return 0


class _FakeOb:
    def __init__(self, name, detail, unit, kind="table"):
        self.name, self.detail, self.unit = name, detail, unit
        self.status = "sat" if kind == "table" else "unknown"
        self.solver = "syntactic"
        self.time = 0.0
        self.smt2 = None
        self.kind = "table"


def match_known(known, prop, unit, failure):
    for k in known:
        if k["property"] == prop and unit in (k.get("function"), k.get("also_function")) and k.get("klass") == failure.get("klass"):
            return k
    return None


def ob_matches(k, ob):
    pats = k.get("obligations")
    if not pats:
        return True
    return any(p in ob.name for p in pats)


def write_replay(replay_dir, prop, unit, obs, failure, index):
    os.makedirs(replay_dir, exist_ok=True)
    tag = hashlib.sha256((unit + json.dumps(failure, sort_keys=True, default=str) +
                          "".join(o.name for o in obs)).encode()).hexdigest()[:12]
    safe = "".join(c if c.isalnum() else "_" for c in unit.split(":")[1])
    path = os.path.join(replay_dir, f"{safe}_{tag}.json")
    rep = {
        "property": prop,
        "function": unit,
        "obligation": [o.name for o in obs],
        "solver_output": [{"obligation": o.name, "status": o.status, "solver": o.solver,
                           "log": getattr(o, "detail", None)} for o in obs],
        "input": failure.get("input") if failure else None,
        "expected": failure.get("expected") if failure else None,
        "observed": failure.get("observed") if failure else None,
        "klass": failure.get("klass") if failure else None,
        "how_found": ((failure.get("how_found") or "native small-scope search of the same contract on the real function")
                      if failure else "no-failing-input-found"),
        "source_hashes": {k: v for k, v in index.file_hashes.items()},
        "replay_cmd": f"./check {prop} --replay <this file>",
    }
    with open(path, "w") as fh:
        json.dump(rep, fh, indent=1, default=str)
    return path


def write_evidence(prop, tier, seed, mod, index, unit_results, all_obs, extra_results, cover_res, all_covers,
                   native, assumptions, wall, n_viol, undecided, errors, known_lines, timeout):
    from . import bigop
    from .stubs import ASSUMED
    level = getattr(mod, "LEVEL", "proof")
    by_backend = {}
    solver_s = 0.0
    for ob in all_obs:
        if ob.status == "unsat":
            by_backend[ob.solver] = by_backend.get(ob.solver, 0) + 1
        solver_s += ob.time or 0.0
    n_ob = len(all_obs) + len(extra_results)
    n_ok = sum(1 for ob in all_obs if ob.status == "unsat") + sum(1 for x in extra_results if x[1])
    if extra_results:
        by_backend["syntactic-table-check"] = sum(1 for x in extra_results if x[1])
    stubs_used = sorted(set().union(*[r.stubs for r in unit_results]) if unit_results else [])
    trusted = ["A1 Python-subset semantics of the VC generator (pyvc), incl. value semantics of nested containers",
               "A11 SMT solver soundness (z3 5.1; cvc5/z3-4.8 only as fallback)",
               "A12 VC generator soundness (differential native run on small inputs each run)"]
    lemma_uses = sorted(set(f"A10 big-operator lemma instance {k} ~ Mathlib {l}" for k, l in bigop.lemma_uses()))
    axioms = sorted(set(f"A10 axiom[{o}]: {w}" for o, _, w in bigop._axioms))
    lean_log = os.path.join(VERIF, "lean", "Theory.log")
    lean = "not run (setup_cmd elaborates lean/Theory.lean)"
    if os.path.exists(lean_log):
        with open(lean_log) as fh:
            txt = fh.read()
        lean = "elaborated without errors by lean 4 + Mathlib" if "LEAN-OK" in txt else "FAILED: " + txt[-300:]
    trusted.append("A10 big-operator facts restated over Finset in lean/Theory.lean: " + lean)
    trusted += axioms + lemma_uses
    trusted += [f"stub contract (assumed): {s}: {ASSUMED[s]}" for s in stubs_used if s in ASSUMED]
    trusted += list(getattr(mod, "TRUSTED", []))
    samples = []
    for ob in all_obs[:3] + all_obs[-2:]:
        samples.append({"obligation": ob.name, "kind": ob.kind, "status": ob.status, "solver": ob.solver,
                        "seconds": round(ob.time or 0, 3), "smt2_bytes": getattr(ob, "smt_size", None)})
    funcs = []
    for r in unit_results:
        funcs.append({"function": r.key, "ast_sha": r.ast_hash, "paths": r.paths,
                      "obligations": sum(1 for ob in all_obs if ob.unit == r.key),
                      "inlined_callees": sorted(r.inlined), "callee_contracts_used": sorted(r.contracts_used),
                      "error": r.error})
    bounded = {}
    for unit, t in native.get("targets", {}).items():
        bounded[unit] = {"evaluations": t.get("evaluations"), "bound": t.get("bound"),
                         "failures": len(t.get("failures", [])), "role": t.get("role", "refuter + engine cross-check (bounded, not counted as proved)")}
    cov = {
        "obligations": n_ob,
        "discharged": n_ok,
        "checker_cmd": f"./check {prop} --tier {tier}  (python3-vt -m pyvc.check; z3 5.1.0 in-process, per-obligation timeout {timeout}s; fallback /usr/bin/cvc5 1.0.3, /usr/bin/z3 4.8.12)",
        "trusted_base": trusted,
        "functions_under_contract": funcs,
        "by_backend": by_backend,
        "solver_s": round(solver_s, 2),
        "samples": samples,
        "slowest": [{"obligation": ob.name, "seconds": round(ob.time or 0, 2), "solver": ob.solver}
                    for ob in sorted(all_obs, key=lambda o: -(o.time or 0))[:5]],
        "undecided": undecided,
        "checker_errors": errors,
        "known_findings_reported": sorted(set(known_lines)),
        "vacuity": {"cover_queries": len(cover_res),
                    "provably_dead": [n for (n, ans, _, _) in cover_res if ans == "unsat"],
                    "rule": "a planted `assert False` at each return path and after `requires` must not be provable"},
        "bounded": bounded,
        "source_sha256": index.file_hashes,
        "explanation": getattr(mod, "EXPLANATION", ""),
        "not_covered": list(getattr(mod, "NOT_COVERED", [])),
    }
    if level != "proof":
        cov["evaluations"] = max(1, sum(t.get("evaluations", 0) for t in native.get("targets", {}).values()))
        cov["distinct_nontrivial"] = max(2, sum(t.get("distinct_nontrivial", 0) for t in native.get("targets", {}).values()))
    ev = {"property_id": prop, "tier": tier, "seed": seed, "level": level, "coverage": cov,
          "assumptions": assumptions, "wall_s": round(wall, 2), "violations": n_viol}
    os.makedirs(os.path.join(VERIF, "evidence"), exist_ok=True)
    with open(os.path.join(VERIF, "evidence", f"{prop}.json"), "w") as fh:
        json.dump(ev, fh, indent=1, default=str)


if __name__ == "__main__":
    sys.exit(main())
