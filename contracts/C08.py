"""
Contracts for C08 -- translation units and platforms are analysed in isolation
(codebasin/finder.py: the per-entry block of `find`).  Shared with C04
(forced includes first, same platform object), C10 (no membership test on the
association path) and C12 (every entry of a platform is associated under the
platform's name).

The block is specified by the trace of calls it makes: a NEW platform object
per entry, then the -I directories in order, then the -D macros in order,
then each -include looked up from the file's directory and associated with the
same object, and finally the file itself - nothing else, on no other object.
"""
import z3

from pyvc.contract import contract, lemma, LoopSpec, ObjSpec, CellOf
from pyvc.values import *  # noqa
from pyvc.state import Exc
from pyvc import bigop, ops, trace as T
from pyvc import fsmodel as F
from pyvc.fsmodel import PATH
from pyvc.speclib import P
from pyvc.exprs import fmt_term

NEW, ADDPATH, DEFINE, FIND, INSERT, ASSOC, WARN = range(7)
LANG = Atom("Language")
DEFSTR = Atom("DefStr")
IDENT = Atom("Ident")
macro_of = z3.Function("macro_from_definition_string", DEFSTR.sort(), T.MAC.sort())
OPATH = T.OPATH


def _h_add_include_path(ex, st, recv, pos, kw, node):
    if len(pos) != 1 or kw:
        return [(st, Exc("TypeError", node.lineno))]
    T.emit(st, T.mk(ADDPATH, obj=recv.t, path=ops.deref(st, pos[0]).t))
    return [(st, VNone())]


def _h_define(ex, st, recv, pos, kw, node):
    if len(pos) != 2 or kw:
        return [(st, Exc("TypeError", node.lineno))]
    ident, mac = ops.deref(st, pos[0]), ops.deref(st, pos[1])
    T.emit(st, T.mk(DEFINE, obj=recv.t, macro=mac.t, flag=(ident.t == name_of(mac.t))))
    return [(st, VNone())]


def _h_find_include_file(ex, st, recv, pos, kw, node):
    if len(pos) not in (2, 3):
        return [(st, Exc("TypeError", node.lineno))]
    res = OPATH.fresh(ex.ctx, "found")
    wc = st.ghost.get("wit_cell")
    if wc is not None:            # ghost: the position of the k-th lookup in the trace (witness for "every -include is looked up")
        st.heap[wc.oid].val = st.heap[wc.oid].val.append(VInt(T.value(st).n))
    angle = ops.truth(st, pos[2]) if len(pos) == 3 else ops.truth(st, kw["is_system_include"]) if "is_system_include" in kw else z3.BoolVal(False)
    T.emit(st, T.mk(FIND, obj=recv.t, path=ops.deref(st, pos[0]).t, path2=ops.deref(st, pos[1]).t, res=res.t, flag=angle))
    return [(st, res)]


def _h_insert_file(ex, st, recv, pos, kw, node):
    if len(pos) not in (1, 2):
        return [(st, Exc("TypeError", node.lineno))]
    lang = ops.deref(st, pos[1]) if len(pos) == 2 else None
    # flag: the file is parsed in the language handed over (None = by its own extension); which language that is,
    # is stated by the obligation on the INSERT events
    st.ghost.setdefault("insert_langs", []).append(lang)
    T.emit(st, T.mk(INSERT, path=ops.coerce(st, ops.deref(st, pos[0]), PATH).t,
                    flag=z3.BoolVal(lang is not None), macro=None))
    st.ghost["last_insert_lang"] = lang
    return [(st, VNone())]


def _h_get_realpath(ex, st, recv, pos, kw, node):
    if len(pos) != 1 or kw:
        return [(st, Exc("TypeError", node.lineno))]
    return [(st, VAtom(PATH, F.realpath(ops.coerce(st, ops.deref(st, pos[0]), PATH).t)))]


def _h_warning(ex, st, pos, kw, node, star):
    """log.warning(msg): a WARN event.  That the message names the include of the lookup just before it (and uses the
    'user include' wording the summary counts by) is a separate obligation, raised here, so that no string term enters
    the quantified trace facts."""
    msg = ops.deref(st, pos[0])
    tr = T.value(st)
    last = tr.arr[tr.n - 1]
    ex.ctx.oblige(f"{ex.ctx.unit}/ensures:the-warning-names-the-include-that-was-not-found (and says 'user include')", st,
                  z3.And(T.field(last, "kind") == FIND,
                         z3.Contains(msg.t, fmt_term(T.field(last, "path"))), z3.Contains(msg.t, z3.StringVal("user include"))),
                  "ensures", node.lineno, None)
    # flag: the event just before this warning is a lookup that found nothing (evaluated on the trace as it is now)
    T.emit(st, T.mk(WARN, path=T.field(last, "path"),
                    flag=z3.And(T.field(last, "kind") == FIND, OPATH.sort().is_none(T.field(last, "res")))))
    return [(st, VNone())]


LANGTAB = Abstract("LangTable", attrs={"item:*": (LANG, PATH)})       # state.langs: total on the files parsed so far
lang_of = z3.Function("LangTable.item", LANGTAB.sort(), PATH.sort(), LANG.sort())


def _h_associate(ex, st, recv, pos, kw, node):
    if len(pos) != 2 or kw:
        return [(st, Exc("TypeError", node.lineno))]
    T.emit(st, T.mk(ASSOC, path=ops.coerce(st, ops.deref(st, pos[0]), PATH).t, obj=ops.deref(st, pos[1]).t))
    return [(st, VNone())]


PLATOBJ = Abstract("Obj", methods={"add_include_path": _h_add_include_path, "define": _h_define,
                                   "find_include_file": _h_find_include_file})
STATEOBJ = Abstract("StateObj", attrs={"langs": LANGTAB},
                    methods={"insert_file": _h_insert_file, "associate": _h_associate, "_get_realpath": _h_get_realpath})
MACROOBJ = Abstract("MacroVal", attrs={"name": IDENT})
name_of = MACROOBJ.attr_fn("name")
ENTRY = Abstract("Entry", attrs={"item:file": PATH, "item:include_paths": SeqOf(PATH),
                                 "item:defines": SeqOf(DEFSTR), "item:include_files": SeqOf(PATH)})


def _new_platform(ex, st, pos, kw, node):
    if len(pos) != 2 or kw:
        return [(st, Exc("TypeError", node.lineno))]
    pl = PLATOBJ.fresh(ex.ctx, "platform_obj")
    st.ghost["new_plat_name"] = ops.deref(st, pos[0])
    T.emit(st, T.mk(NEW, obj=pl.t))
    return [(st, pl)]


def _macro_from_definition_string(ex, st, env, node):
    d = ops.deref(st, env["string"])
    return [(st, VAtom(MACROOBJ, macro_of(d.t)))]


b = contract("codebasin.finder:find@loop4", props=["C08", "C04", "C10", "C12"])
b.param("p", P).param("e", ENTRY).param("rootdir", PATH).param("state", STATEOBJ)
b.opaque = {"class:Platform": _new_platform,
            "codebasin.preprocessor:macro_from_definition_string": _macro_from_definition_string,
            "stub:logging.logger.warning": _h_warning}


def _setup(ctx, st):
    from pyvc.state import HeapObj
    F.install_axioms()
    T.init_symbolic(ctx, st)
    st.ghost["trace0"] = T.value(st)
    st.ghost["wit_cell"] = st.alloc(HeapObj("cell", val=VSeq.of(INT, [])))


def _wit(view_state):
    return view_state.heap[view_state.ghost["wit_cell"].oid].val


b.setup = _setup

j_ = z3.Int("tr!j")
k_ = z3.Int("tr!k")


def ev(Tr, i):
    return Tr.arr[i]


def f(e, name):
    return T.field(e, name)


def entry_lists(e):
    ip = ENTRY.attr(e, "item:include_paths")
    df = ENTRY.attr(e, "item:defines")
    inc = ENTRY.attr(e, "item:include_files")
    file = ENTRY.attr(e, "item:file").t
    return ip, df, inc, file


def phase_facts(old, Tr, pl, e, upto_paths, upto_defs):
    """facts about the part of the trace written so far in this iteration"""
    ip, df, inc, file = entry_lists(e)
    n0 = old.n
    return [
        ("earlier-trace-untouched", z3.ForAll([j_], z3.Implies(z3.And(0 <= j_, j_ < n0), ev(Tr, j_) == ev(old, j_)))),
        ("a-new-platform-object-is-created-first", ev(Tr, n0) == T.mk(NEW, obj=pl)),
        ("-I-directories-added-in-order",
         z3.ForAll([j_], z3.Implies(z3.And(0 <= j_, j_ < upto_paths),
                                    ev(Tr, n0 + 1 + j_) == T.mk(ADDPATH, obj=pl, path=ip.arr[j_])))),
        ("-D-macros-defined-in-order-after-all--I",
         z3.ForAll([j_], z3.Implies(z3.And(0 <= j_, j_ < upto_defs),
                                    ev(Tr, n0 + 1 + ip.n + j_)
                                    == T.mk(DEFINE, obj=pl, macro=macro_of(df.arr[j_]), flag=z3.BoolVal(True))))),
    ]


def lookups_witnessed(Tr, e, start, end, done, wit):
    """the k-th -include is looked up at trace position wit[k] (ghost list filled by the lookup handler)"""
    inc = entry_lists(e)[2]
    return [("every--include-is-looked-up (k-th include at the k-th recorded lookup position)",
             z3.And(wit.n == done,
                    z3.ForAll([k_], z3.Implies(z3.And(0 <= k_, k_ < done),
                                               z3.And(start <= wit.arr[k_], wit.arr[k_] < end,
                                                      f(ev(Tr, wit.arr[k_]), "kind") == FIND,
                                                      f(ev(Tr, wit.arr[k_]), "path") == inc.arr[k_])))))]


def include_region(Tr, pl, e, start, end, done):
    """events of the forced-include phase: lookups from the file's directory on this
    platform object, each hit followed by insert + associate with the same object"""
    ip, df, inc, file = entry_lists(e)
    d = F.dirname(F.realpath(file))          # beside the physical file, however its path is spelled
    evj = ev(Tr, j_)
    inreg = z3.And(start <= j_, j_ < end)
    return [
        ("forced-include-phase-contains-only-lookup/insert/associate/warning",
         z3.ForAll([j_], z3.Implies(inreg, z3.Or(f(evj, "kind") == FIND, f(evj, "kind") == INSERT, f(evj, "kind") == ASSOC,
                                                 f(evj, "kind") == WARN)))),
        ("a-failed-lookup-is-followed-by-one-warning-that-names-the-include",
         z3.ForAll([j_], z3.Implies(z3.And(inreg, f(evj, "kind") == FIND, OPATH.sort().is_none(f(evj, "res"))),
                                    z3.And(j_ + 1 < end, f(ev(Tr, j_ + 1), "kind") == WARN,
                                           f(ev(Tr, j_ + 1), "path") == f(evj, "path"))))),
        ("a-warning-is-issued-only-right-after-a-lookup-that-found-nothing (recorded in the event when it is issued)",
         z3.ForAll([j_], z3.Implies(z3.And(inreg, f(evj, "kind") == WARN), f(evj, "flag")))),
        ("a-forced-include-is-parsed-in-a-given-language (not by its own extension)",
         z3.ForAll([j_], z3.Implies(z3.And(inreg, f(evj, "kind") == INSERT), f(evj, "flag")))),
        ("lookups-use-this-platform-and-the-file's-directory",
         z3.ForAll([j_], z3.Implies(z3.And(inreg, f(evj, "kind") == FIND),
                                    z3.And(f(evj, "obj") == pl, f(evj, "path2") == d, z3.Not(f(evj, "flag")),
                                           z3.Exists([k_], z3.And(0 <= k_, k_ < inc.n, f(evj, "path") == inc.arr[k_])))))),
        ("insert-only-right-after-a-successful-lookup-of-that-file",
         z3.ForAll([j_], z3.Implies(z3.And(inreg, f(evj, "kind") == INSERT),
                                    z3.And(j_ > start, f(ev(Tr, j_ - 1), "kind") == FIND,
                                           f(ev(Tr, j_ - 1), "res") == OPATH.sort().some(f(evj, "path")))))),
        ("associate-only-right-after-the-insert-with-this-platform",
         z3.ForAll([j_], z3.Implies(z3.And(inreg, f(evj, "kind") == ASSOC),
                                    z3.And(j_ > start, f(ev(Tr, j_ - 1), "kind") == INSERT,
                                           f(ev(Tr, j_ - 1), "path") == f(evj, "path"), f(evj, "obj") == pl)))),
        ("a-successful-lookup-is-followed-by-insert-and-associate",
         z3.ForAll([j_], z3.Implies(z3.And(inreg, f(evj, "kind") == FIND, z3.Not(OPATH.sort().is_none(f(evj, "res")))),
                                    z3.And(j_ + 2 < end, f(ev(Tr, j_ + 1), "kind") == INSERT, f(ev(Tr, j_ + 2), "kind") == ASSOC)))),
    ]


def _old(L):
    return L.args._st.ghost["trace0"]


def _inv5(L):
    old = _old(L)
    pl = L.file_platform.t
    ip = entry_lists(L.args.e)[0]
    return [("trace-length", L.trace.n == old.n + 1 + L.i)] + phase_facts(old, L.trace, pl, L.args.e, L.i, z3.IntVal(0))


def _inv6(L):
    old = _old(L)
    pl = L.file_platform.t
    ip = entry_lists(L.args.e)[0]
    return [("trace-length", L.trace.n == old.n + 1 + ip.n + L.i)] + phase_facts(old, L.trace, pl, L.args.e, ip.n, L.i)


def _inv7(L):
    old = _old(L)
    pl = L.file_platform.t
    ip, df, inc, file = entry_lists(L.args.e)
    start = old.n + 1 + ip.n + df.n
    return ([("trace-length", L.trace.n >= start)] + phase_facts(old, L.trace, pl, L.args.e, ip.n, df.n)
            + include_region(L.trace, pl, L.args.e, start, L.trace.n, L.i)
            + lookups_witnessed(L.trace, L.args.e, start, L.trace.n, L.i, _wit(L._st)))


b.loop(5, LoopSpec(_inv5))
b.loop(6, LoopSpec(_inv6))
b.loop(7, LoopSpec(_inv7))


@b.ensures
def _(A, R):
    old = R.st.ghost["trace0"]
    Tr = R.trace
    pl = R.new.file_platform.t
    ip, df, inc, file = entry_lists(A.e)
    start = old.n + 1 + ip.n + df.n
    name = R.st.ghost.get("new_plat_name")
    out = phase_facts(old, Tr, pl, A.e, ip.n, df.n)
    out += include_region(Tr, pl, A.e, start, Tr.n - 1, inc.n)
    out += lookups_witnessed(Tr, A.e, start, Tr.n - 1, inc.n, _wit(R.st))
    out += [("the-file-itself-is-associated-last-with-the-same-platform-object",
             z3.And(Tr.n - 1 >= start, ev(Tr, Tr.n - 1) == T.mk(ASSOC, path=file, obj=pl))),
            ("the-platform-object-carries-the-platform's-name",
             z3.BoolVal(name is not None) if name is None else name.t == A.p.t)]
    return out


# ---------------------------------------------------------- footprint (syntactic)
def extra_obligations(index, tier):
    """Footprint obligations that justify reading the block as a function of the entry
    alone: the platform object is created inside the innermost entry loop, and
    nothing on the association path is process-global mutable state."""
    import ast
    from pyvc.loops import loop_nodes
    out = []
    fi = index.func("codebasin.finder:find")
    loops = loop_nodes(fi.node)
    ok = len(loops) > 4 and any(isinstance(n, ast.Call) and ast.unparse(n.func).endswith("Platform")
                                for s in loops[4].body for n in ast.walk(s))
    out.append(("footprint/platform-object-allocated-inside-the-entry-loop", ok, "", "codebasin.finder:find", "pattern"))
    # the block is a function of (p, e, rootdir, state) alone: every other name it reads is a module-level name
    # (imports, classes); a name assigned elsewhere in find() and read by the block is state that outlives the entry
    if len(loops) > 4:
        blk = loops[4]
        assigned_in_find = {n.id for n in ast.walk(fi.node) if isinstance(n, ast.Name) and isinstance(n.ctx, ast.Store)}
        assigned_in_find |= {a.arg for a in fi.node.args.args + fi.node.args.kwonlyargs}
        assigned_in_blk = {n.id for st in blk.body for n in ast.walk(st) if isinstance(n, ast.Name) and isinstance(n.ctx, ast.Store)}
        read_in_blk = {n.id for st in blk.body for n in ast.walk(st) if isinstance(n, ast.Name) and isinstance(n.ctx, ast.Load)}
        outside = sorted((read_in_blk & assigned_in_find) - assigned_in_blk - {"p", "e", "rootdir", "state", "show_progress"})
        out.append(("footprint/the per-entry block reads only p, e, rootdir, state from the enclosing function", not outside,
                    f"also reads {outside}", "codebasin.finder:find"))
        # loop nest: for p in configuration / for e in configuration[p], no early exit
        outer = loops[3] if len(loops) > 3 else None
        shape = (outer is not None and ast.unparse(outer.iter).startswith("tqdm(configuration")
                 and ast.unparse(blk.iter).startswith("tqdm(configuration[p]") and blk in list(ast.walk(outer)))
        out.append(("structure/every entry of every platform is visited: for p in configuration: for e in configuration[p]", shape, "",
                    "codebasin.finder:find", "pattern"))
        exits = [type(n).__name__ for st in outer.body for n in ast.walk(st) if isinstance(n, (ast.Break, ast.Continue, ast.Return))] if outer else ["?"]
        out.append(("structure/no break, continue or return inside the association loops", not exits, str(exits), "codebasin.finder:find"))
    # every code-base file and every entry's file is parsed before any association
    src = "".join(ast.unparse(fi.node).split())
    pre = ("filenames=set(codebase)" in src and "filenames.add(e['file'])" in src and "state.insert_file(f)" in src
           and src.index("state.insert_file(f)") < src.index("platform.Platform("))
    out.append(("structure/all code-base files and entry files are parsed (by their own language) before any association", pre, "",
                "codebasin.finder:find", "pattern"))
    # no `global` statement and no store to a module/class attribute in the modules on the association path
    for mod in ("codebasin.finder", "codebasin.platform", "codebasin.preprocessor"):
        tree = index.modules[mod]
        bad = [n.lineno for n in ast.walk(tree) if isinstance(n, ast.Global)]
        out.append((f"footprint/no-global-statement-in-{mod}", not bad, f"lines {bad}", "codebasin.finder:find"))
    # class-level mutable containers (shared between instances) in Platform / ParserState
    for cls in ("Platform", "ParserState", "MacroExpander", "Macro", "MacroFunction"):
        ci = index.class_by_name.get(cls)
        shared = [n for n, v in (ci.class_assigns.items() if ci else []) if isinstance(v, (ast.List, ast.Dict, ast.Set, ast.Call))]
        out.append((f"footprint/no-class-level-mutable-state-in-{cls}", ci is not None and not shared, f"{shared}", "codebasin.finder:find"))
    # Platform.__init__ starts from empty tables
    init = index.func("codebasin.platform:Platform.__init__")
    empties = {}
    for st in init.node.body:
        if isinstance(st, ast.Assign) and isinstance(st.targets[0], ast.Attribute):
            empties[st.targets[0].attr] = ast.unparse(st.value)
    for fld in ("_definitions", "_skip_includes", "_include_paths", "found_incl"):
        out.append((f"footprint/Platform.__init__-starts-{fld}-empty", empties.get(fld) in ("{}", "[]"), str(empties.get(fld)),
                    "codebasin.platform:Platform.__init__", "pattern"))
    return out


UNITS = ["codebasin.finder:find@loop4"]
ASSUMPTIONS = [
    "the behaviour of Platform.add_include_path/define/find_include_file and ParserState.insert_file/associate is owned by their own contracts (C01, C04, C15); here they are opaque and traced",
    "macro_from_definition_string is a function of the definition string",
    "per-entry determinism of the callee tree (associate) is assumed; shared parse trees are only written through Token.prev_white (listed frame exception, DESIGN 5 C08)",
]
NOT_COVERED = [
    "the outer loops of find (all platforms, all entries) are checked syntactically only (the block is the loop body)",
    "stores to shared tokens (Token.prev_white) by Macro.__init__/MacroFunction.replace",
]
EXPLANATION = ("The per-entry block of finder.find is proved to create a new platform object and to perform, on that object only, "
               "exactly: -I in order, -D in order, each -include from the file's directory (insert+associate on a hit), then the file.")
