"""Native bounded stand-in for C10: every model code base is analysed with and
without its exclusion list (and with headers outside the root): the attribution
of every line of every file is the same (and equals the reference), excluded
files contribute no lines to any platform set, and the remaining sets lose
exactly the excluded files' lines."""
import os

from codebasin import CodeBase
from codebasin.preprocessor import CodeNode
from native import sysrun
from native.systarget import SysTarget


def setmap_of(state, files):
    m = {}
    for f in files:
        tree, assoc = state.get_tree(f), state.get_map(f)
        for n in tree.walk():
            if isinstance(n, CodeNode):
                k = frozenset(assoc[n])
                m[k] = m.get(k, 0) + n.num_lines
    return m


class Exclusion(SysTarget):
    def compare(self, sb, case, cfg, exp, used, state):
        r = super().compare(sb, case, cfg, exp, used, state)      # attribution with the exclusion == reference
        if r:
            r["klass"] = self.name + ":attribution-changed-by-exclusion"
            return r
        src = sb.abs(case["codebase"])
        cb_ex = CodeBase(src, exclude_patterns=list(case["excludes"]))
        cb_all = CodeBase(src)
        _, st_all = sysrun.real_find(sb.root, cfg, [src], [])
        if sysrun.real_used(st_all) != used:
            return {"expected": "identical per-line attribution with and without the exclusion", "observed": "differs",
                    "klass": self.name + ":attribution-changed-by-exclusion"}
        mem_all = [f for f in sorted(cb_all) if not (os.path.islink(f) and os.path.realpath(f) in cb_all)]
        mem_ex = [f for f in sorted(cb_ex) if not (os.path.islink(f) and os.path.realpath(f) in cb_ex)]
        removed = [f for f in mem_all if f not in set(mem_ex)]
        # the files removed are exactly those the ORDERED pattern list matches (oracle: git check-ignore, A6)
        from native.C09 import git_ignored
        rels = {f: os.path.relpath(f, src).replace(os.sep, "/") for f in mem_all}
        ign = git_ignored(src, list(case["excludes"]), sorted(rels.values()))
        want_removed = [f for f in mem_all if rels[f] in ign]
        if want_removed != removed:
            return {"expected": f"removed by {case['excludes']}: {[rels[f] for f in want_removed]}",
                    "observed": f"{[rels[f] for f in removed]}", "klass": self.name + ":removed-files-are-not-the-matched-files"}
        got = dict(state.get_setmap(cb_ex))
        want = setmap_of(state, mem_ex)
        if got != want:
            return {"expected": "counts over the remaining members only", "observed": "differs", "klass": self.name + ":counts"}
        full = dict(st_all.get_setmap(cb_all))
        minus = setmap_of(st_all, removed)
        for k in set(full) | set(minus) | set(got):
            if full.get(k, 0) - minus.get(k, 0) != got.get(k, 0):
                return {"expected": f"set {sorted(k)}: {full.get(k, 0)} - {minus.get(k, 0)}", "observed": got.get(k, 0),
                        "klass": self.name + ":not-exactly-the-excluded-lines"}
        return None


TARGETS = {"codebasin.finder:ParserState.get_setmap": Exclusion("exclusion", ("exclude", "outside", "multi", "forced"),
                                                                quick_n=200, thorough_n=4000)}


# ---- "a pattern given with -x is equivalent to the same pattern in the analysis file": front ends as subprocesses -----
from native import cli as _cli, recorded as _R      # noqa: E402


class DashX:
    """codebasin / cbi-tree with `-x P` vs the same analysis file with P appended to its exclude list, for files whose
    own list is order-sensitive (a negated pattern): same Total SLOC"""
    proved = False
    role = "bounded check: 6 fixed pattern lists x 2 front ends, as subprocesses"

    CASES = [(["*.h", "!api.h"], "*.h"),          # the -x pattern repeats a pattern of the file: not redundant, the order counts
             (["*.h", "!api.h"], "api.h"), (["*.h"], "main.c"), ([], "*.h"), (["sub/*", "!sub/keep.c"], "keep.c"),
             (["!api.h", "*.h"], "api.h"), (["util.h"], "!util.h")]

    def bound(self, tier):
        return f"{len(self.CASES)} (analysis-file list, -x pattern) pairs x codebasin and cbi-tree"

    def inputs(self, tier, seed):
        for k in range(len(self.CASES)):
            yield {"k": k}

    def nontrivial(self, inp):
        return True

    def check(self, inp):
        import json
        import re
        in_file, dash_x = self.CASES[inp["k"]]
        files = {"main.c": "#include \"api.h\"\nint m;\nint n;\n", "api.h": "int a;\nint b;\n", "util.h": "int u;\n",
                 "sub/keep.c": "int k;\n", "sub/drop.c": "int d;\n"}
        with _R.tree(files) as root:
            db = [{"directory": root, "file": os.path.join(root, f), "arguments": ["gcc", "-c", os.path.join(root, f)]}
                  for f in ("main.c", "sub/keep.c", "sub/drop.c")]
            with open(os.path.join(root, "db.json"), "w") as fh:
                json.dump(db, fh)

            def toml(name, pats):
                with open(os.path.join(root, name), "w") as fh:
                    fh.write("[codebase]\nexclude = [" + ", ".join(json.dumps(x) for x in pats) + "]\n\n[platform.p]\ncommands = \"db.json\"\n")
                return os.path.join(root, name)
            t1, t2 = toml("a1.toml", in_file), toml("a2.toml", in_file + [dash_x])
            for module, extra in (("codebasin", ["-R", "summary"]), ("codebasin.tree", [])):
                rc1, o1, e1 = _cli.run(module, extra + ["-x", dash_x, t1], root)
                rc2, o2, e2 = _cli.run(module, extra + [t2], root)
                if rc1 != 0 or rc2 != 0:
                    return {"expected": "both runs succeed", "observed": (e1 or e2)[-300:], "klass": "exclusion:dash-x-run-fails"}
                if module == "codebasin":
                    v1, v2 = (re.search(r"Total SLOC: (\d+)", o).group(1) for o in (o1, o2))
                else:
                    strip = lambda o: re.sub(r"\x1b\[[0-9;]*m", "", o).replace(root, "<root>")      # noqa: E731
                    v1, v2 = strip(o1), strip(o2)
                if v1 != v2:
                    return {"expected": f"{module}: `-x {dash_x}` with exclude = {in_file} gives what exclude = {in_file + [dash_x]} gives: {v2[-200:]}",
                            "observed": v1[-200:], "klass": "exclusion:dash-x-not-equivalent-to-the-analysis-file"}
        return None


TARGETS["codebasin.__main__:_main"] = DashX()
