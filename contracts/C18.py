"""
Contracts for C18 -- nothing is dropped silently.

Emit conditions (exactly one warning iff ...) are postconditions over the ghost
log of the functions that detect unhonoured input:
  IncludeNode.evaluate_for_platform   (contracts.C04, both variants)
  FileParser.insert_directive_node    (here)
  config.load_database                (contracts.C13)
  ArgumentParser.__init__             (contracts.C12)
and the counters of the warning aggregator are proved to count exactly the
matching records and to print the count they hold.
"""
import ast
import z3

from pyvc.contract import contract, lemma, LoopSpec, ObjSpec, CellOf
from pyvc.values import *  # noqa
from pyvc.state import Exc, HeapObj
from pyvc import bigop, ops
from pyvc import fsmodel as F
from pyvc.fsmodel import PATH
import contracts.C04 as C04     # noqa: F401  (IncludeNode units)
import contracts.C12 as C12     # noqa: F401
import contracts.C13 as C13     # noqa: F401

# ------------------------------------------------------------------ MetaWarning
REGEX = Abstract("Regex")
_matches = z3.Function("re.search", REGEX.sort(), z3.StringSort(), z3.BoolSort())


def _search(ex, st, recv, pos, kw, node):
    if len(pos) != 1:
        return [(st, Exc("TypeError", node.lineno))]
    return [(st, VBool(_matches(recv.t, ops.deref(st, pos[0]).t)))]


REGEX.methods["search"] = _search
RECORD = Abstract("LogRecord", attrs={"msg": STR, "levelno": INT})
MW = ObjSpec("MetaWarning", {"regex": REGEX, "msg": STR, "_count": INT})
_format = z3.Function("str.format", z3.StringSort(), z3.IntSort(), z3.StringSort())


def _fmt(ex, st, pos, kw, node, star):
    s, n = ops.deref(st, pos[0]), ops.deref(st, pos[1])
    return [(st, VStr(_format(s.t, n.t)))]


from pyvc.stubs import STUBS    # noqa: E402
STUBS["method:format"] = _fmt


def _logger_warning(ex, st, recv, pos, kw, node):
    st.ghost["log"] = st.ghost.get("log", ()) + (("warning", ops.deref(st, pos[0]), node.lineno),)
    return [(st, VNone())]


LOGGER = Abstract("Logger", methods={"warning": _logger_warning})

mi = contract("codebasin._detail.logging:MetaWarning.inspect", props=["C18"])
mi.param("self", MW).param("record", RECORD)
mi.modifies = ["self._count"]


@mi.ensures
def _(A, R):
    m = _matches(A.self.regex.t, RECORD.attr(A.record, "msg").t)
    return [("result<=>record-matches", ops.truth(R.st, R.raw_result) == m),
            ("count-incremented-iff-match", R.new.self._count.t == A.self._count.t + z3.If(m, 1, 0))]


mw = contract("codebasin._detail.logging:MetaWarning.warn", props=["C18"])
mw.param("self", MW).param("logger", LOGGER)


@mw.ensures
def _(A, R):
    n = len(R.log)
    out = [("one-meta-warning-iff-count-non-zero", z3.BoolVal(n == 1) == (A.self._count.t != 0)),
           ("never-more-than-one", z3.BoolVal(n <= 1))]
    if n == 1:
        out.append(("printed-total==the-count-held", R.log[0][1].t == _format(A.self.msg.t, A.self._count.t)))
    return out


# ------------------------------------------------------------ WarningAggregator
def _agg_kind(n):
    return ObjSpec("WarningAggregator", {"meta_warnings": _ListOf([MW] * n)})


class _ListOf:
    """a concrete-length list of objects (parameter kind helper)"""

    def __init__(self, kinds):
        self.kinds = kinds
        self.name = "objlist"


from pyvc import engine as _engine      # noqa: E402
_orig_make_param = _engine.make_param


def _make_param(ctx, st, name, kind):
    if isinstance(kind, _ListOf):
        items = [_orig_make_param(ctx, st, f"{name}[{i}]", k) for i, k in enumerate(kind.kinds)]
        return st.alloc(HeapObj("cell", val=VTuple(items)))
    return _orig_make_param(ctx, st, name, kind)


_engine.make_param = _make_param

N_META = 3
af = contract("codebasin._detail.logging:WarningAggregator.filter", props=["C18"])
af.param("self", _agg_kind(N_META)).param("record", RECORD)
af.modifies = ["self.meta_warnings"]


@af.ensures
def _(A, R):
    out = [("never-filters-anything-out", ops.truth(R.st, R.raw_result))]
    lvl = RECORD.attr(A.record, "levelno").t
    msg = RECORD.attr(A.record, "msg").t
    olds = A.self.meta_warnings.items
    news = R.new.self.meta_warnings.items
    for i in range(N_META):
        o = R.st.heap[olds[i].oid] if False else None
        old_c = A._st.heap[olds[i].oid].fields["_count"].t
        new_c = R.st.heap[news[i].oid].fields["_count"].t
        rgx = A._st.heap[olds[i].oid].fields["regex"].t
        out.append((f"counter{i}==number-of-matching-WARNING-records",
                    new_c == old_c + z3.If(z3.And(lvl == 30, _matches(rgx, msg)), 1, 0)))
    return out


aw = contract("codebasin._detail.logging:WarningAggregator.warn", props=["C18"])
aw.param("self", _agg_kind(N_META)).param("logger", LOGGER)


@aw.ensures
def _(A, R):
    olds = A.self.meta_warnings.items
    counts = [A._st.heap[o.oid].fields["_count"].t for o in olds]
    msgs = [A._st.heap[o.oid].fields["msg"].t for o in olds]
    n = len(R.log)
    nonzero = z3.Sum([z3.If(c != 0, 1, 0) for c in counts])
    out = [("one-summary-line-per-non-zero-category", z3.IntVal(n) == nonzero)]
    # each printed line is the format of some category with its own count, in category order
    k = 0
    for lv, m, _ in R.log:
        out.append((f"line{k}-is-a-category's-message-with-its-count",
                    z3.Or([z3.And(c != 0, m.t == _format(s, c)) for c, s in zip(counts, msgs)])))
        k += 1
    return out


# --------------------------------------------------------- insert_directive_node
TOKEN = Abstract("Token", attrs={"line": INT, "col": INT, "__str__": STR})


def _str_token(ex, st, pos, kw, node, star):
    v = ops.deref(st, pos[0])
    if isinstance(v, VAtom) and isinstance(v.kind, Abstract) and "__str__" in v.kind.attrs:
        return [(st, v.kind.attr(v, "__str__"))]
    from pyvc.stubs import _str
    return _str(ex, st, pos, kw, node, star)


STUBS["str"] = _str_token
LINEGROUP = ObjSpec("LineGroup", {"start_line": INT, "end_line": INT, "line_count": INT, "lines": CellOf(SeqOf(INT))})
TREE = Abstract("SourceTreeObj", attrs={}, methods={})
ROOT = Abstract("FileNodeObj", attrs={"filename": PATH})
TREE.attrs["root"] = ROOT


def _tree_insert(ex, st, recv, pos, kw, node):
    st.ghost["inserted"] = st.ghost.get("inserted", ()) + (pos[0],)
    return [(st, VNone())]


TREE.methods["insert"] = _tree_insert


def _lexer(ex, st, pos, kw, node):
    return [(st, st.alloc(HeapObj("inst", cls="Lexer", fields={})))]


def _tokenize(ex, st, env, node):
    return [(st, VNone())]


def _dparser(ex, st, pos, kw, node):
    return [(st, st.alloc(HeapObj("inst", cls="DirectiveParser", fields={})))]


def _spelling(ex, st, env, node):
    s = STR.fresh(ex.ctx, "spelling")
    st.ghost["spelling"] = s
    return [(st, s)]


def _directive_contract(key, cls):
    c = contract(key, props=["C18"])
    c.param("tree", TREE).param("line_group", LINEGROUP).param("logical_line", STR)

    def _parse(ex, st, env, node):
        flds = {"tokens": st.alloc(HeapObj("cell", val=SeqOf(TOKEN).fresh(ex.ctx, "tokens")))}
        st.assume(ops.deref(st, flds["tokens"]).n >= 1)       # a directive has at least the '#' token
        o = st.alloc(HeapObj("inst", cls=cls, fields=flds))
        st.ghost["new_node"] = o
        return [(st, o)]
    c.opaque = {"class:Lexer": _lexer, "codebasin.preprocessor:Lexer.tokenize": _tokenize,
                "class:DirectiveParser": _dparser, "codebasin.preprocessor:DirectiveParser.parse": _parse,
                "codebasin.preprocessor:DirectiveNode.spelling": _spelling}
    c.setup = lambda ctx, st: F.install_axioms()

    @c.ensures
    def _(A, R):
        node = R.st.ghost["new_node"]
        toks = ops.deref(R.st, R.st.heap[node.oid].fields["tokens"])
        warns = [m for lv, m, _ in R.log if lv == "warning"]
        ins = R.st.ghost.get("inserted", ())
        out = [("node-is-inserted-exactly-once", z3.BoolVal(len(ins) == 1 and ins[0].oid == node.oid)),
               ("line-bookkeeping-copied",
                z3.And(R.st.heap[node.oid].fields["num_lines"].t == A.line_group.line_count.t,
                       R.st.heap[node.oid].fields["start_line"].t == A.line_group.start_line.t))]
        if cls == "UnrecognizedDirectiveNode":
            second = TOKEN.attr(TOKEN.wrap(toks.arr[1]), "__str__").t
            harmless = z3.Or([second == z3.StringVal(x) for x in ("line", "warning", "error")])
            should = z3.And(toks.n >= 2, z3.Not(harmless))
            out.append(("one-warning-iff-unrecognised-and-not-#line/#warning/#error", z3.BoolVal(len(warns) == 1) == should))
            out.append(("never-more-than-one-warning", z3.BoolVal(len(warns) <= 1)))
        else:
            out.append(("recognised-directives-produce-no-warning", z3.BoolVal(len(warns) == 0)))
        return out
    return c


_directive_contract("codebasin.file_parser:FileParser.insert_directive_node#unrecognized", "UnrecognizedDirectiveNode")
_directive_contract("codebasin.file_parser:FileParser.insert_directive_node#recognized", "DefineNode")


# ------------------------------------------------------------- warning call sites
EXPECTED_SITES = {
    "codebasin.preprocessor:IncludeNode.evaluate_for_platform": 1,
    "codebasin.file_parser:FileParser.insert_directive_node": 1,
    "codebasin.preprocessor:DirectiveParser.parse": 1,          # trailing tokens after a directive
    "codebasin.finder:find": 1,                                 # a forced include (-include) that is not found
    "codebasin.config:load_database": 3,
    "codebasin.config:ArgumentParser.__init__": 1,
    "codebasin.config:ArgumentParser.parse_args": 1,
    "codebasin.config:_load_compilers": 4,
    "codebasin.__main__:_main": 1,
    "codebasin._detail.logging:MetaWarning.warn": 1,
}


def extra_obligations(index, tier):
    found = {}
    for key, fi in index.funcs.items():
        n = 0
        todo = list(fi.node.body)
        while todo:                      # the function's own statements, not those of nested defs
            node = todo.pop()
            if isinstance(node, (ast.FunctionDef, ast.Lambda, ast.ClassDef)):
                continue
            if isinstance(node, ast.Call) and isinstance(node.func, ast.Attribute) and node.func.attr == "warning" \
                    and isinstance(node.func.value, ast.Name) and node.func.value.id in ("log", "logger"):
                n += 1
            todo.extend(ast.iter_child_nodes(node))
        if n:
            found[key] = n
    out = []
    for key in sorted(set(found) | set(EXPECTED_SITES)):
        # a pattern obligation: a different number of call sites may be a refactoring (a warning moved into a helper, a
        # new warning for a new kind of unhonoured input), so it makes the check undecided, not failed; the emit
        # conditions themselves are the contracts above and the event multiset is the native run
        out.append((f"warning-sites/{key}=={EXPECTED_SITES.get(key, 0)}", found.get(key, 0) == EXPECTED_SITES.get(key, 0),
                    f"found {found.get(key, 0)}", key, "pattern"))
    return out


import contracts.C08 as _C08     # noqa: E402,F401  (the per-entry block of find(): one warning per forced include that is not found)

UNITS = [
    "codebasin.finder:find@loop4",
    "codebasin.preprocessor:IncludeNode.evaluate_for_platform#literal",
    "codebasin.preprocessor:IncludeNode.evaluate_for_platform#computed",
    "codebasin.file_parser:FileParser.insert_directive_node#unrecognized",
    "codebasin.file_parser:FileParser.insert_directive_node#recognized",
    "codebasin.config:load_database",
    "codebasin.config:ArgumentParser.__init__",
    "codebasin._detail.logging:MetaWarning.inspect",
    "codebasin._detail.logging:MetaWarning.warn",
    "codebasin._detail.logging:WarningAggregator.filter",
    "codebasin._detail.logging:WarningAggregator.warn",
]
ASSUMPTIONS = [
    "A7 logging: log.warning(m) delivers exactly one record with msg == m to every attached filter; handlers do not raise",
    "re.search and str.format are uninterpreted functions; the aggregator has 3 categories (read from its constructor)",
    "Lexer / DirectiveParser are opaque in insert_directive_node (the class of the parsed node is a case split)",
]
NOT_COVERED = [
    "category soundness of the regexes (a path containing the words 'user include' makes a system-include message match): not proved",
    "the whole-run multiset of events as a function of program structure: bounded native stand-in",
    "unknown flags (ArgumentParser.parse_args): bounded only (C11)",
]
EXPLANATION = ("Every place that detects unhonoured input is proved to emit exactly one warning under exactly the stated "
               "condition, and the aggregator to count and print exactly the numbers issued per category.")
