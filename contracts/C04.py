"""
Contracts for C04 -- #include resolution (codebasin/platform.py).

Spec (from the property statement): `Resolve(name, this_dir, angle, paths)` is
the first candidate abspath(join(d, name)) that is a regular file, d ranging
over ([] if angle else [this_dir]) ++ paths; None if there is none.  The
result may not depend on earlier lookups (memo history).
"""
import z3

from pyvc.contract import contract, lemma, LoopSpec, ObjSpec, CellOf
from pyvc.values import *  # noqa
from pyvc import bigop, ops
from pyvc import fsmodel as F
from pyvc.fsmodel import PATH

OPATH = Opt(PATH)
import os
KEY = TupleKey("inclkey", [("name", PATH), ("this", PATH), ("angle", BOOL)])
MEMO = MapOf(KEY, OPATH)
# The pinned tree (f8c92da) keyed the memo by the spelling alone.  With
# C04_SPELLING_KEY=1 the contract is typed for that shape; the only invariant such
# a memo admits from its own code is "every cached value is the resolution of the
# same spelling for SOME earlier (this_dir, angle)", under which the postcondition
# is refutable -- this is how the defect fixed in /repo was exhibited (DESIGN 9).
SPELLING_KEY = os.environ.get("C04_SPELLING_KEY") == "1"
if SPELLING_KEY:
    MEMO = MapOf(PATH, OPATH)

PLATFORM = ObjSpec("Platform", {
    "found_incl": CellOf(MEMO),
    "_include_paths": CellOf(SeqOf(PATH)),
    "_skip_includes": CellOf(SeqOf(PATH)),
})


def cands(this, angle, paths):
    """candidate directories as (array, length): ([] if angle else [this]) ++ paths"""
    i = z3.Int("cd!i")
    arr = z3.Lambda([i], z3.If(angle, paths.arr[i], z3.If(i == 0, this, paths.arr[i - 1])))
    return arr, z3.If(angle, paths.n, paths.n + 1)


def resolves_to(name, this, angle, paths, r):
    """r (an Opt[Path] term) is Resolve(name, this, angle, paths)"""
    cs, n = cands(this, angle, paths)
    i, j = z3.Ints("rs!i rs!j")
    cand = lambda k: F.abspath(F.join(cs[k], name))     # noqa: E731
    srt = OPATH.sort()
    none_case = z3.And(srt.is_none(r), z3.ForAll([j], z3.Implies(z3.And(0 <= j, j < n), z3.Not(F.isfile(cand(j))))))
    some_case = z3.Exists([i], z3.And(0 <= i, i < n, F.isfile(cand(i)), r == srt.some(cand(i)),
                                      z3.ForAll([j], z3.Implies(z3.And(0 <= j, j < i), z3.Not(F.isfile(cand(j)))))))
    return z3.Or(none_case, some_case)


def memo_valid(memo, paths):
    """every cached answer is the resolution of its own key under the current search path"""
    if SPELLING_KEY:
        n = z3.Const("mv!n", PATH.sort())
        t = z3.Const("mv!t", PATH.sort())
        a = z3.Bool("mv!a")
        return z3.ForAll([n], z3.Implies(memo.dom[n], z3.Exists([t, a], resolves_to(n, t, a, paths, z3.Select(memo.valarr, n)))))
    k = z3.Const("mv!k", KEY.sort())
    return z3.ForAll([k], z3.Implies(memo.dom[k],
                                     resolves_to(KEY.field(k, 0), KEY.field(k, 1), KEY.field(k, 2), paths,
                                                 z3.Select(memo.valarr, k))))


f = contract("codebasin.platform:Platform.find_include_file", props=["C04", "C18"])
f.param("self", PLATFORM).param("filename", PATH).param("this_path", PATH).param("is_system_include", BOOL)
f.modifies = ["self.found_incl"]


@f.requires
def _(A):
    F.install_axioms()
    return [("memo-valid", memo_valid(A.self.found_incl, A.self._include_paths))]


@f.ensures
def _(A, R):
    r = ops.coerce(R.st, R.raw_result, OPATH)
    return [
        ("result==first-existing-candidate-in-search-order",
         resolves_to(A.filename.t, A.this_path.t, A.is_system_include.t, A.self._include_paths, r.t)),
        # with the clause above and `requires memo-valid` this re-establishes memo-valid
        # (lemma memo-update-preserves-validity below)
        ("memo-afterwards==memo[key:=result]-or-unchanged-on-a-hit", _memo_update(A, R, r)),
        ("search-path-unchanged", R.new.self._include_paths.eq(A.self._include_paths)),
    ]


def _memo_update(A, R, r):
    old, new = A.self.found_incl, R.new.self.found_incl
    key = KEY.pack([A.filename, A.this_path, A.is_system_include]).t
    upd = z3.And(new.dom == z3.Store(old.dom, key, z3.BoolVal(True)), new.valarr == z3.Store(old.valarr, key, r.t))
    hit = z3.And(old.dom[key], old.valarr[key] == r.t, new.dom == old.dom, new.valarr == old.valarr)
    return z3.Or(hit, upd)


@lemma("memo-update-preserves-validity", props=["C04"])
def _():
    """memo-valid(m) and Resolve(key)==r  ==>  memo-valid(m[key:=r]); Resolve abstract"""
    Res = z3.Function("ResolvesTo", KEY.sort(), OPATH.sort(), z3.BoolSort())
    dom = z3.Const("lm!dom", z3.ArraySort(KEY.sort(), z3.BoolSort()))
    val = z3.Const("lm!val", z3.ArraySort(KEY.sort(), OPATH.sort()))
    key = z3.Const("lm!key", KEY.sort())
    r = z3.Const("lm!r", OPATH.sort())
    k = z3.Const("lm!k", KEY.sort())
    valid = lambda d, v: z3.ForAll([k], z3.Implies(d[k], Res(k, v[k])))     # noqa: E731
    hyps = [valid(dom, val), Res(key, r)]
    return [("valid(m[key:=r])", hyps, valid(z3.Store(dom, key, z3.BoolVal(True)), z3.Store(val, key, r)))]


def _loop_inv(L):
    name = L.args.filename.t
    j = z3.Int("li!j")
    return [("no-earlier-candidate-is-a-file",
             z3.ForAll([j], z3.Implies(z3.And(0 <= j, j < L.i),
                                       z3.Not(F.isfile(F.abspath(F.join(L.seq.arr[j], name)))))))]


f.loop(0, LoopSpec(_loop_inv))

# ---------------------------------------------------------- once-list
s = contract("codebasin.platform:Platform.add_include_to_skip", props=["C04"])
s.param("self", PLATFORM).param("fn", PATH)
s.modifies = ["self._skip_includes"]


@s.ensures
def _(A, R):
    x = z3.Const("sk!x", PATH.sort())
    old, new = A.self._skip_includes, R.new.self._skip_includes
    return [("once-list==old+{fn}",
             z3.ForAll([x], new.has(x) == z3.Or(old.has(x), x == A.fn.t)))]


p = contract("codebasin.platform:Platform.process_include", props=["C04"])
p.param("self", PLATFORM).param("fn", PATH)


@p.ensures
def _(A, R):
    return [("process-iff-not-on-once-list",
             R.result.t == z3.Not(A.self._skip_includes.has(A.fn.t)))]


a = contract("codebasin.platform:Platform.add_include_path", props=["C04"])
a.param("self", PLATFORM).param("path", PATH)
a.modifies = ["self._include_paths"]


@a.ensures
def _(A, R):
    return [("appended-in-order", R.new.self._include_paths.eq(A.self._include_paths.append(A.path)))]


UNITS = [
    "codebasin.platform:Platform.find_include_file",
    "codebasin.platform:Platform.add_include_to_skip",
    "codebasin.platform:Platform.process_include",
    "codebasin.platform:Platform.add_include_path",
]

ASSUMPTIONS = [
    "A4 static file system; os.path.join/abspath/isfile are pure functions/predicates of the path name",
    "include names, directories and resolved files are values of one abstract Path sort",
]
NOT_COVERED = [
    "IncludeNode.evaluate_for_platform / finder.find (call-site obligations for attribution, -include ordering): see evidence of later rounds",
    "macro state flowing in and out of the header is the platform object's identity (not proved here)",
]
EXPLANATION = ("Platform.find_include_file is proved to return the first existing candidate in compiler search order "
               "independently of the memo's history, under the memo invariant it re-establishes itself.")


# =====================================================================
# IncludeNode.evaluate_for_platform: which lookup is made, and what is done
# with its result (attribution of the included file under the SAME platform
# object, language inherited from the includer, one warning iff not found).
# Specified by the trace of calls on the platform / parser-state objects.
from pyvc import trace as T                                   # noqa: E402
from pyvc.state import Exc, HeapObj                           # noqa: E402
import contracts.C08 as C08                                   # noqa: E402
from contracts.C08 import PLATOBJ, STATEOBJ, FIND, INSERT, ASSOC  # noqa: E402

PROC = 6
LANGK = Atom("Lang")
EXPANSION = Atom("Expansion")
TOKEN = Atom("Token")


def _h_process_include(ex, st, recv, pos, kw, node):
    if len(pos) != 1 or kw:
        return [(st, Exc("TypeError", node.lineno))]
    r = BOOL.fresh(ex.ctx, "process")
    T.emit(st, T.mk(PROC, obj=recv.t, path=ops.coerce(st, ops.deref(st, pos[0]), PATH).t, flag=r.t))
    return [(st, r)]


def _h_insert_file_lang(ex, st, recv, pos, kw, node):
    """state.insert_file(path, lang): the language handed down is recorded in the event"""
    if len(pos) != 2 or kw:
        return C08._h_insert_file(ex, st, recv, pos, kw, node)
    lang = ops.deref(st, pos[1])
    st.ghost["inserted_lang"] = lang
    T.emit(st, T.mk(INSERT, path=ops.coerce(st, ops.deref(st, pos[0]), PATH).t))
    return [(st, VNone())]


PLATOBJ.methods["process_include"] = _h_process_include
def _h_get_realpath(ex, st, recv, pos, kw, node):
    if len(pos) != 1 or kw:
        return [(st, Exc("TypeError", node.lineno))]
    F.install_axioms()
    return [(st, VAtom(PATH, F.realpath(ops.coerce(st, ops.deref(st, pos[0]), PATH).t)))]


STATEOBJ2 = Abstract("StateObj", attrs={"langs": TotalMapOf(PATH, LANGK)},
                     methods={"insert_file": _h_insert_file_lang, "associate": C08._h_associate,
                              "_get_realpath": _h_get_realpath})
KWARGS = ObjSpec("$dict", {"platform": PLATOBJ, "filename": PATH, "state": STATEOBJ2})
INCPATH = ObjSpec("IncludePath", {"path": PATH, "system": BOOL})
_exp_path = z3.Function("include_path_of_expansion", EXPANSION.sort(), PATH.sort())
_exp_sys = z3.Function("include_form_of_expansion", EXPANSION.sort(), z3.BoolSort())


def _spelling(ex, st, env, node):
    s = STR.fresh(ex.ctx, "spelling")
    return [(st, st.alloc(HeapObj("cell", val=VSeq.of(STR, [s]))))]


def _macro_expander(ex, st, pos, kw, node):
    st.ghost["expander_platform"] = pos[0] if pos else None
    return [(st, st.alloc(HeapObj("inst", cls="MacroExpander", fields={"platform": pos[0]})))]


def _expand(ex, st, env, node):
    st.ghost["expanded"] = env["tokens"]
    return [(st, EXPANSION.fresh(ex.ctx, "expansion"))]


def _directive_parser(ex, st, pos, kw, node):
    return [(st, st.alloc(HeapObj("inst", cls="DirectiveParser", fields={"tokens": pos[0]})))]


def _include_path(ex, st, env, node):
    toks = st.heap[env["self"].oid].fields["tokens"]
    o = st.alloc(HeapObj("inst", cls="IncludePath", fields={
        "path": VAtom(PATH, _exp_path(toks.t)), "system": VBool(_exp_sys(toks.t))}))
    st.ghost["reparsed"] = toks
    return [(st, o)]


_OPAQUE = {"codebasin.preprocessor:DirectiveNode.spelling": _spelling,
           "class:MacroExpander": _macro_expander,
           "codebasin.preprocessor:MacroExpander.expand": _expand,
           "class:DirectiveParser": _directive_parser,
           "codebasin.preprocessor:DirectiveParser.include_path": _include_path}


def _include_contract(key, value_kind):
    c = contract(key, props=["C04", "C18"])
    c.param("self", ObjSpec("IncludeNode", {"value": value_kind, "start_line": INT}))
    c.param("kwargs", KWARGS)
    c.opaque = dict(_OPAQUE)
    c.setup = lambda ctx, st: (F.install_axioms(), T.init_symbolic(ctx, st), st.ghost.__setitem__("trace0", T.value(st)))

    @c.ensures
    def _(A, R):
        old = R.st.ghost["trace0"]
        Tr = R.trace
        n0 = old.n
        plat = A.kwargs.platform.t
        filename = A.kwargs.filename.t
        if isinstance(value_kind, ObjSpec):
            name, system = A.self.value.path.t, A.self.value.system.t
        else:
            toks = R.st.ghost.get("reparsed")
            if toks is None:
                return [("computed-include-is-expanded-and-re-parsed", z3.BoolVal(False))]
            name, system = _exp_path(toks.t), _exp_sys(toks.t)
        added = [x.t for x in Tr.items[len(old.items):]] if Tr.items is not None and old.items is not None else None
        # the trace is symbolic at entry, so compare by position
        m = Tr.n - n0
        mc = concrete_int(z3.simplify(m))
        out = []
        ev = lambda i: Tr.arr[n0 + i]          # noqa: E731
        first = ev(0)
        res = T.field(first, "res")
        out.append(("exactly-one-lookup: name, including file's directory and the directive's own form",
                    z3.And(m >= 1, first == T.mk(FIND, obj=plat, path=name, path2=F.dirname(filename), flag=system, res=res))))
        found = z3.Not(OPATH.sort().is_none(res))
        tgt = OPATH.sort().get(res)
        nwarn = len([1 for lv, _, _ in R.log if lv == "warning"])
        out.append(("one-warning-iff-the-lookup-found-nothing", z3.BoolVal(nwarn <= 1) if True else None))
        out.append(("warning-iff-not-found", z3.BoolVal(nwarn == 1) == z3.Not(found)))
        if mc is None:
            out.append(("trace-has-concrete-shape", z3.BoolVal(False)))
            return out
        if mc == 1:
            out.append(("nothing-else-happens-only-when-not-found", z3.Not(found)))
        elif mc == 2:
            out.append(("found: once-list consulted by the header's real path, header skipped",
                        z3.And(found, ev(1) == T.mk(PROC, obj=plat, path=F.realpath(tgt), flag=z3.BoolVal(False)))))
        elif mc == 4:
            lang = R.st.ghost.get("inserted_lang")
            want_lang = z3.Select(STATEOBJ2.attr_fn("langs")(A.kwargs.state.t), filename)
            out.append(("found and not on the once-list: header parsed with the includer's language and associated "
                        "with the same platform object",
                        z3.And(found, ev(1) == T.mk(PROC, obj=plat, path=F.realpath(tgt), flag=z3.BoolVal(True)),
                               ev(2) == T.mk(INSERT, path=tgt), ev(3) == T.mk(ASSOC, path=tgt, obj=plat),
                               (lang.t == want_lang) if lang is not None else z3.BoolVal(False))))
        else:
            out.append(("unexpected-number-of-calls", z3.BoolVal(False)))
        kind = R.new.kind if R.new.has("kind") else None
        if nwarn == 1:
            out.append(("warning-names-the-form-used",
                        z3.BoolVal(False) if kind is None else
                        kind.t == z3.If(system, z3.StringVal("system include"), z3.StringVal("user include"))))
        return out
    return c


_include_contract("codebasin.preprocessor:IncludeNode.evaluate_for_platform#literal", INCPATH)
_include_contract("codebasin.preprocessor:IncludeNode.evaluate_for_platform#computed", CellOf(SeqOf(TOKEN)))

UNITS += ["codebasin.preprocessor:IncludeNode.evaluate_for_platform#literal",
          "codebasin.preprocessor:IncludeNode.evaluate_for_platform#computed",
          "codebasin.finder:find@loop4"]
NOT_COVERED[:] = [
    "macro state flowing in and out of a header is carried by the identity of the platform object (proved: same object) "
    "and by the C01 visitor contract; the recursion through associate is not unfolded",
    "include guards need no mechanism of their own (C01 + macro table); -include lookup starts in the file's directory, not the compiler's cwd",
]
