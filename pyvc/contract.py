"""
pyvc.contract -- the contract DSL (sidecar contracts, DESIGN 2.4).

A contract is attached to a real function of /repo by qualified name.  Its
clauses are Python callables that receive *views* of symbolic state and
return lists of (label, z3 formula).  Nothing here is executable code of the
repository: the function body always comes from pyvc.source.
"""

_CONTRACTS = {}
_LEMMAS = []
_UNITS = {}          # property id -> list of unit descriptors


class LoopSpec:
    """Loop contract.

    invariant(L) -> [(label, formula)]
        L.<name>   current value of local <name> (containers dereferenced)
        L.seen     ghost set of keys/elements already iterated (set/dict loops)
        L.i        ghost index (sequence loops), a z3 Int term
        L.entry    view of the state on loop entry
        L.args     view of the function's entry state
    kinds       kinds for locals whose kind cannot be inferred at loop entry
    decreases(L) -> z3 Int term (while loops; checked >= 0 and strictly decreasing)
    """

    def __init__(self, invariant, kinds=None, decreases=None, modifies=None, hints=None, post=None):
        self.invariant = invariant
        self.kinds = kinds or {}
        self.decreases = decreases
        self.modifies = modifies
        self.hints = hints          # hints(L) -> [formula] lemma instances assumed (recorded)
        self.post = post            # post(L) -> [(label, formula)]: proved at loop exit, then assumed (cut)


class SumSpec:
    """`sum(<comprehension>)` at a given ordinal: the spec big-sum that the
    comprehension's summand must match pointwise.
    value(A, S) -> term for the sum over set S ; summand(A, x) -> term"""

    def __init__(self, value, summand, nan=None):
        self.value, self.summand, self.nan = value, summand, nan


class Contract:
    def __init__(self, key, props=()):
        self.key = key
        self.props = tuple(props)
        self.params = []            # [(name, Kind | ObjSpec)]
        self.free = []              # free variables of a nested function (closure): [(name, Kind)]
        self.globals = []           # module globals read by the function: [(name, Kind)]
        self.setup = None           # setup(ctx, state): extra initial ghost state (e.g. a symbolic trace)
        self.opaque = {}            # callee key -> handler(ex, st, args_env, node) -> [(state, value|Exc)]
                                    # (assumed contract of a callee outside the unit; listed in evidence)
        self.locals = {}            # local name -> Kind
        self._requires = []
        self._ensures = []          # (fn, props)
        self._raises = {}           # exc name -> fn(A) -> formula  (allowed iff)
        self.loops = {}
        self.sums = {}
        self.modifies = None        # None = nothing reachable from params is modified
        self.result_kind = None     # needed when the contract is *used* at call sites
        self.no_raise = True
        self.hints = None           # fn(A) -> [formula]: lemma instances available everywhere
        self.inline_calls = True
        self.pure = False
        self.notes = []

    # builder API -----------------------------------------------------------
    def param(self, name, kind):
        self.params.append((name, kind))
        return self

    def local(self, name, kind):
        self.locals[name] = kind
        return self

    def requires(self, fn):
        self._requires.append(fn)
        return fn

    def ensures(self, fn=None, props=None):
        def reg(f):
            self._ensures.append((f, tuple(props) if props else None))
            return f
        if fn is not None:
            return reg(fn)
        return reg

    def raises(self, exc, when):
        self._raises[exc] = when
        return self

    def loop(self, ordinal, spec):
        self.loops[ordinal] = spec
        return self

    def sum(self, ordinal, spec):
        self.sums[ordinal] = spec
        return self

    def result(self, kind):
        self.result_kind = kind
        return self


def contract(key, props=()):
    c = Contract(key, props)
    _CONTRACTS[key] = c
    return c


def get(key):
    return _CONTRACTS.get(key)


def all_contracts():
    return dict(_CONTRACTS)


class Lemma:
    """A spec-level lemma: formulas proved from the big-operator theory and
    the spec definitions alone (no code)."""

    def __init__(self, name, props, build):
        self.name, self.props, self.build = name, tuple(props), build


def lemma(name, props):
    def reg(f):
        _LEMMAS.append(Lemma(name, props, f))
        return f
    return reg


def all_lemmas():
    return list(_LEMMAS)


def reset():
    _CONTRACTS.clear()
    _LEMMAS.clear()
    _UNITS.clear()


class ObjSpec:
    """A parameter that is a class instance with concrete shape: the fields
    listed get fresh symbolic values of the given kinds."""

    def __init__(self, cls, fields):
        self.cls, self.fields = cls, fields
        self.name = "obj:" + cls


class CellOf:
    """A mutable container parameter (list/dict/set) held in a heap cell."""

    def __init__(self, kind):
        self.kind = kind
        self.name = "cell:" + kind.name
