"""
Native bounded stand-in for the C01 composition (tree construction + pruned
visit + branch stack + macro table + #if evaluation of simple conditions)
against the reference preprocessor native/refpp.py.  Every program is analysed
for five platforms at once (X undefined, -DX=0, -DX=1, -DX=3, -DX=) in ONE
finder.find run, so leakage between platforms (C08) shows up too.
Bounded, never counted as proved.
"""
import itertools
import random

from native import refpp
from native.refpp import L
from native import sysrun

X_VALUES = [None, "0", "1", "3", ""]
XEQ = ("or", ("eq", ("id", "X"), ("num", 2)), ("eq", ("id", "X"), ("num", 3)))
RAW_BAD = ("bad",)             # renders as "(": a syntax error wherever a real preprocessor evaluates it

KINDS = {
    "if1": L("if", expr=("num", 1)), "if0": L("if", expr=("num", 0)),
    "ifX": L("if", expr=("id", "X")), "ifXeq": L("if", expr=XEQ),
    "ifXm1": L("if", expr=("minus1", "X")), "elifXm1": L("elif", expr=("minus1", "X")),   # `X -1`: valid for an empty X too
    "ifdefX": L("ifdef", name="X"), "ifndefX": L("ifndef", name="X"),
    "elif1": L("elif", expr=("num", 1)), "elif0": L("elif", expr=("num", 0)),
    "elifX": L("elif", expr=("id", "X")), "elifdefX": L("elif", expr=("defined", "X")),
    "elifbad": L("elif", expr=RAW_BAD, bad=True),
    "else": L("else"), "endif": L("endif"),
    "defX1": L("define", name="X", value="1"), "defX3": L("define", name="X", value="3"),
    "undefX": L("undef", name="X"), "code": L("code"),
}
OPEN = {"if1", "if0", "ifX", "ifXeq", "ifXm1", "ifdefX", "ifndefX"}
CONT = {"elif1", "elif0", "elifX", "elifXm1", "elifdefX", "elifbad", "else"}
SMALL = ["if1", "if0", "ifX", "ifXm1", "ifdefX", "elif1", "elif0", "elifX", "elifbad", "else", "endif", "defX1", "undefX", "code"]


def sequences(maxlen, kinds):
    out = []

    def go(seq, stack):
        if seq and not stack:
            out.append(list(seq))
        if len(seq) == maxlen:
            return
        room = maxlen - len(seq)
        for k in kinds:
            if k in OPEN:
                if room >= 2 + len(stack):
                    go(seq + [k], stack + ["open"])
            elif k in CONT:
                if stack and stack[-1] == "open" and room >= 1 + len(stack):
                    go(seq + [k], stack[:-1] + ["else" if k == "else" else "open"])
            elif k == "endif":
                if stack:
                    go(seq + [k], stack[:-1])
            elif room >= 1 + len(stack):
                go(seq + [k], stack)
    go([], [])
    return out


def chain_programs(rng, count):
    """nested chains of depth 2 with code in every branch (the shapes where a stale
    branch stack or a mis-parented node shows)"""
    conds = ["1", "0", "X", "Xm1"]

    def chain(depth):
        seq = ["if" + rng.choice(conds)]
        seq += body(depth)
        for _ in range(rng.choice([0, 0, 1, 2])):
            seq += ["elif" + rng.choice(conds)] + body(depth)
        if rng.random() < 0.6:
            seq += ["else"] + body(depth)
        return seq + ["endif"]

    def body(depth):
        if depth < 2 and rng.random() < 0.5:
            return chain(depth + 1) + (["code"] if rng.random() < 0.7 else [])
        return rng.choice([["code"], ["code", "defX1"], ["undefX", "code"], []])
    for _ in range(count):
        yield chain(0) + ["code"]


class Composition:
    proved = False
    role = ("bounded stand-in for the C01 composition (real tree build + associate + #if evaluation vs the reference "
            "preprocessor); refuter for the associator / macro-table contracts")

    def __init__(self):
        self.sb = None

    def bound(self, tier):
        if tier == "quick":
            return ("every well-nested program of <= 4 lines over 14 directive kinds + 1500 seeded random nested chains "
                    "(depth <= 3) + 1500 random programs of 5..8 lines over 19 kinds; each for 5 platforms in one run, two platform orders")
        return ("every well-nested program of <= 6 lines over 14 kinds and <= 5 lines over 19 kinds + 20000 random nested "
                "chains + 20000 random programs of 6..9 lines; 5 platforms per run, two platform orders")

    def inputs(self, tier, seed):
        rng = random.Random(seed)
        if tier == "quick":
            for s in sequences(4, SMALL):
                yield {"seq": s, "rev": False}
            for s in chain_programs(rng, 1500):
                yield {"seq": s, "rev": rng.random() < 0.5}
            pool = sequences(5, list(KINDS))
            for s in rng.sample(pool, min(1500, len(pool))):
                yield {"seq": s, "rev": rng.random() < 0.5}
        else:
            for s in sequences(6, SMALL):
                yield {"seq": s, "rev": False}
            for s in sequences(5, list(KINDS)):
                yield {"seq": s, "rev": True}
            for s in chain_programs(rng, 20000):
                yield {"seq": s, "rev": rng.random() < 0.5}

    def nontrivial(self, inp):
        return any(k in OPEN for k in inp["seq"]) and any(k in CONT for k in inp["seq"])

    def check(self, inp):
        if self.sb is None:
            self.sb = sysrun.Sandbox("cbi_c01_")
        sb = self.sb
        lines = [KINDS[k] for k in inp["seq"]]
        files = {"t.c": lines}
        sb.write(files)
        plats = list(enumerate(X_VALUES))
        if inp.get("rev"):
            plats.reverse()
        cfg = {}
        for i, xv in plats:
            defs = [] if xv is None else ["X=" + xv]
            cfg[f"p{i}"] = [sysrun.entry(sb, "t.c", defs)]
        # reference, per platform (an invalid program for a platform drops that platform)
        expected = {}
        for name, entries in list(cfg.items()):
            try:
                expected[name] = sysrun.ref_used(sb, files, {name: entries})[name][0]
            except refpp.Invalid:
                del cfg[name]
        if not cfg:
            return None
        try:
            _, state = sysrun.real_find(sb.root, cfg)
            used = sysrun.real_used(state)
        except Exception as e:      # noqa: BLE001
            kl = "elif-evaluated-after-taken-branch" if "elifbad" in inp["seq"] else "analysis-fails"
            return {"expected": "no failure", "observed": f"raised {type(e).__name__}: {e}", "klass": "composition:" + kl,
                    "platforms": sorted(cfg)}
        for name in cfg:
            obs = used.get(name, set())
            if obs != expected[name]:
                return {"expected": sysrun.rel_used(sb, expected[name]), "observed": sysrun.rel_used(sb, obs),
                        "platform": name, "defines": cfg[name][0]["defines"], "klass": "composition:wrong-lines"}
        return None

    def encode(self, inp):
        return {"seq": inp["seq"], "rev": bool(inp.get("rev")), "text": [refpp.render_line(KINDS[k]) for k in inp["seq"]]}

    def decode(self, j):
        return {"seq": j["seq"], "rev": j.get("rev", False)}


class Traversal:
    """Node.visit / Node.walk on random trees with a visitor that prunes at random nodes, against a reference preorder"""
    proved = True

    def bound(self, tier):
        return ("200" if tier == "quick" else "5000") + " seeded random trees of <= 12 nodes, random pruning answers"

    def inputs(self, tier, seed):
        rng = random.Random(seed)
        for _ in range(200 if tier == "quick" else 5000):
            n = rng.randint(1, 12)
            yield {"parents": [rng.randrange(i) for i in range(1, n)], "prune": [rng.random() < 0.3 for _ in range(n)]}

    def nontrivial(self, inp):
        return len(inp["parents"]) >= 2

    def check(self, inp):
        from codebasin.preprocessor import CodeNode, Visit
        n = len(inp["parents"]) + 1
        nodes = [CodeNode() for _ in range(n)]
        kids = [[] for _ in range(n)]
        for i, p in enumerate(inp["parents"], start=1):
            nodes[p].add_child(nodes[i])
            kids[p].append(i)
        index = {id(x): i for i, x in enumerate(nodes)}

        def ref(i, pruned):
            out = [i]
            if not (pruned and inp["prune"][i]):
                for c in kids[i]:
                    out += ref(c, pruned)
            return out
        seen = []

        def visitor(node):
            seen.append(index[id(node)])
            return Visit.NEXT_SIBLING if inp["prune"][index[id(node)]] else Visit.NEXT
        try:
            nodes[0].visit(visitor)
            walked = [index[id(x)] for x in nodes[0].walk()]
        except BaseException as e:      # noqa: BLE001
            return {"expected": "traversal succeeds", "observed": f"{type(e).__name__}: {e}", "klass": "traversal:raises"}
        if seen != ref(0, True):
            return {"expected": f"visit order {ref(0, True)}", "observed": f"{seen}", "klass": "traversal:visit-order"}
        if walked != ref(0, False):
            return {"expected": f"walk order {ref(0, False)}", "observed": f"{walked}", "klass": "traversal:walk-order"}
        return None


_comp = Composition()
TARGETS = {
    "codebasin.finder:ParserState.associate.<locals>.associator": _comp,
    "codebasin.preprocessor:Node.visit": Traversal(),
}


# ---- recorded findings reported by defect hunting (oracle gcc -E) ------------------------------------------------------------
from native import recorded as _R      # noqa: E402


def _one(text, defines, want_used, want_unused, suffix=".c"):
    import os
    with _R.tree({"t" + suffix: text}) as root:
        used = _R.used_lines(root, [{"file": os.path.join(root, "t" + suffix), "defines": defines, "include_paths": [], "include_files": []}])["t" + suffix]
    ok = all(x in used for x in want_used) and not any(x in used for x in want_unused)
    return None if ok else (f"lines {want_used} used, {want_unused} unused", used)


TARGETS["codebasin.preprocessor:DirectiveParser.parse#recorded-findings"] = _R.Exhibits([
    ("composition:elifdef-is-not-a-chain-member", "#ifdef A / int a; / #elifdef B / int b; / #else / int c; / #endif with -DB (C23, accepted by gcc 12)",
     lambda: _one("#ifdef A\nint a;\n#elifdef B\nint b;\n#else\nint c;\n#endif\n", ["B"], [4], [2, 6])),
    ("composition:true-is-0-in-a-c++-condition", "t.cpp: #if USE_GPU / int gpu; / #else / int cpu; / #endif with -DUSE_GPU=true (g++ keeps line 2)",
     lambda: _one("#if USE_GPU\nint gpu;\n#else\nint cpu;\n#endif\n", ["USE_GPU=true"], [2], [4], ".cpp")),
    ("composition:macro-chain-deeper-than-the-expansion-limit-evaluates-to-0", "#define M0 M1 ... #define M198 1 ; #if M0",
     lambda: _one("".join(f"#define M{i} M{i+1}\n" for i in range(198)) + "#define M198 1\n#if M0\nint yes;\n#else\nint no;\n#endif\n", [], [201], [203])),
])
