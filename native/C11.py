"""Native bounded check for C11 (the deciding part of this property is bounded: the
recognition is performed by CPython's argparse / shlex, which are not verified).
Contract: for every argv, parse_args returns for its default pass exactly
ExtractD / ExtractI / ExtractInc of the statement (attached or separate values,
command-line order), unknown options are skipped without aborting, and the
`command` string form is equivalent to the `arguments` form."""
import itertools
import random
import shlex

from codebasin import CompileCommand, config

REC = [("-D", "d"), ("-I", "i"), ("-isystem", "i"), ("-include", "f")]
VALUES = ["X", "X=1", "A=b=c", "sp ace", "q\"uote", "-dash", "/abs/dir", "rel/dir", "h.h"]
UNKNOWN0 = ["-g3", "-ggdb", "-O2", "-Wall", "-std=c++17", "-fPIC", "-march=native", "-pthread", "-g", "-c", "-O",
            "@rsp", "-Werror=format", "-m64", "--sysroot=/x", "-fopenmp-simd", "main.c"]
UNKNOWN1 = [("-MF", "x.d"), ("-ccbin", "g++"), ("-x", "c++"), ("-o", "a.o"), ("-MT", "t"), ("-arch", "sm_70")]


def tokens():
    out = []
    for flag, kind in REC:
        for v in VALUES[:5] if flag == "-D" else (VALUES[5:8] if kind == "i" else [VALUES[8]]):
            out.append(("rec", flag, v, "attached"))
            out.append(("rec", flag, v, "separate"))
    for u in UNKNOWN0:
        out.append(("unk0", u))
    for f, v in UNKNOWN1:
        out.append(("unk1", f, v))
    return out


def is_known_bad(t):
    """tokens that exhibit a recorded finding (known_findings.json); the main target runs without them so
    that a recorded finding can never mask a new failure"""
    if t[0] == "rec":
        return (t[3] == "attached" and t[1] in ("-isystem", "-include")) or (t[3] == "separate" and t[2].startswith("-"))
    return t[1] in ("-g3", "-ggdb", "-ccbin", "-O")


def render(toks):
    argv, exp = [], {"d": [], "i": [], "f": []}
    for t in toks:
        if t[0] == "rec":
            _, flag, v, how = t
            kind = dict(REC)[flag]
            if how == "attached":
                argv.append(flag + v)
            else:
                argv += [flag, v]
            exp[kind].append(v)
        elif t[0] == "unk0":
            argv.append(t[1])
        else:
            argv += [t[1], t[2]]
    return argv, exp


class Extract:
    proved = False
    role = "bounded check (the deciding part of C11 is bounded by design: argparse/shlex are CPython's)"

    def bound(self, tier):
        n = 2 if tier == "quick" else 3
        return (f"every argument vector of <= {n} tokens over a catalogue of {len(tokens())} tokens (recognised options in both "
                "spellings with awkward values; unmodelled gcc/clang/icx/nvcc flags with and without arguments), plus "
                + ("300" if tier == "quick" else "20000") + " seeded random vectors of 4..12 tokens; each also as a shell-quoted command string")

    def __init__(self, clean=True):
        self.clean = clean

    def catalogue(self):
        return [t for t in tokens() if is_known_bad(t) != self.clean]

    def inputs(self, tier, seed):
        if not self.clean:
            for i, t in enumerate(tokens()):
                if is_known_bad(t):
                    yield {"toks": [i]}
            return
        T = [i for i, t in enumerate(tokens()) if not is_known_bad(t)]
        n = 2 if tier == "quick" else 3
        for k in range(1, n + 1):
            for combo in itertools.product(T, repeat=k):
                yield {"toks": list(combo)}
        rng = random.Random(seed)
        for _ in range(300 if tier == "quick" else 20000):
            yield {"toks": [rng.choice(T) for _ in range(rng.randint(4, 12))]}
        return
        T = tokens()
        n = 2 if tier == "quick" else 3
        for k in range(1, n + 1):
            for combo in itertools.product(range(len(T)), repeat=k):
                yield {"toks": list(combo)}
        rng = random.Random(seed)
        for _ in range(300 if tier == "quick" else 20000):
            yield {"toks": [rng.randrange(len(T)) for _ in range(rng.randint(4, 12))]}

    def nontrivial(self, inp):
        T = tokens()
        return any(T[i][0] == "rec" for i in inp["toks"]) and any(T[i][0] != "rec" for i in inp["toks"])

    def check(self, inp):
        T = tokens()
        toks = [T[i] for i in inp["toks"]]
        argv, exp = render(toks)
        try:
            cfgs = config.ArgumentParser("gcc").parse_args(list(argv))
        except BaseException as e:      # noqa: BLE001
            culprit = next((t[1] for t in toks if t[0] != "rec" and t[1] in ("-g3", "-ggdb", "-ccbin", "-O")), None)
            lead = any(t[0] == "rec" and t[3] == "separate" and t[2].startswith("-") for t in toks)
            kl = f"parse_args:raises:{culprit}" if culprit else ("parse_args:raises:separate-value-with-leading-dash" if lead else "parse_args:raises:other")
            return {"argv": argv, "expected": "no exception", "observed": f"{type(e).__name__}: {e}", "klass": kl}
        d = [c for c in cfgs if c.pass_name == "default"]
        if len(d) != 1:
            return {"argv": argv, "expected": "one default configuration", "observed": len(d), "klass": "parse_args:passes"}
        got = {"d": d[0].defines, "i": d[0].include_paths, "f": d[0].include_files}
        if got != exp:
            att = [t for t in toks if t[0] == "rec" and t[1] in ("-isystem", "-include") and t[3] == "attached"]
            lead = [t for t in toks if t[0] == "rec" and t[3] == "separate" and t[2].startswith("-")]
            kl = "parse_args:extraction"
            if att:
                kl += ":attached-" + att[0][1]
            elif lead:
                kl += ":separate-value-with-leading-dash"
            return {"argv": argv, "expected": exp, "observed": got, "klass": kl}
        # the command-string form is equivalent: quoted as shlex.join does it, and with every special character escaped by a
        # backslash instead (no quote character in the string at all)
        def backslashed(words):
            return " ".join("".join(c if (c.isalnum() or c in "-_=./+:,@%") else "\\" + c for c in w) if w else "''" for w in words)
        for rendered in (shlex.join(["gcc"] + argv), backslashed(["gcc"] + argv)):
            cmd = CompileCommand("f.c", command=rendered)
            if cmd.arguments != ["gcc"] + argv:
                return {"argv": argv, "command": rendered, "expected": ["gcc"] + argv, "observed": cmd.arguments, "klass": "command-string-form"}
        return None

    def encode(self, inp):
        return {"toks": inp["toks"], "argv": render([tokens()[i] for i in inp["toks"]])[0]}

    def decode(self, j):
        return {"toks": j["toks"]}


import native.C13 as _C13      # noqa: E402

TARGETS = {"codebasin.config:load_database#sequences": _C13.Sequences(),    # extraction per entry, in databases of several entries
           "codebasin.config:ArgumentParser.parse_args": Extract(clean=True),
           "codebasin.config:ArgumentParser.parse_args#recorded-findings": Extract(clean=False)}


# ---- recorded findings reported by defect hunting (fixed inputs; oracles quoted in the descriptions) ----------
from native import recorded as _R      # noqa: E402


def _default(compiler, argv):
    return [c for c in config.ArgumentParser(compiler).parse_args(list(argv)) if c.pass_name == "default"][0]


def _x_equals():
    c = _default("gcc", ["-I=inc"])
    return None if c.include_paths == ["=inc"] else ("include_paths == ['=inc'] (gcc -I=inc and -I =inc both name the directory '=inc')", c.include_paths)


def _x_flag_equals():
    c = _default("clang", ["-DA", "-fopenmp=libomp", "-DB"])
    return None if c.defines == ["A", "B"] else ("defines == ['A', 'B']", c.defines)


def _x_xassembler():
    c = _default("gcc", ["-Xassembler", "-Iasminc", "-Xlinker", "-DA", "hi.c"])
    return None if (c.include_paths, c.defines) == ([], []) else ("no include path, no define (the words belong to -Xassembler / -Xlinker)", (c.include_paths, c.defines))


def _x_xclang():
    c = _default("clang", ["-Xclang", "-include", "-Xclang", "inc/foo.h", "m.c"])
    return None if c is not None else ("no exception", "none")


def _x_posix_quoting():
    got = CompileCommand("x.c", command='gcc "-DX=\\$5" -DA \\\n-DB -c x.c').arguments
    want = ["gcc", "-DX=$5", "-DA", "-DB", "-c", "x.c"]
    return None if got == want else (f"{want} (the argv /bin/sh builds: \\$ inside double quotes, backslash-newline removed)", got)


def _x_abbreviation():
    with _R.captured() as cap:
        _default("gcc", ["-coverage", "-DA"])
    named = [m for m in cap.messages() if "coverage" in m]
    return None if named else ("one 'Unrecognized arguments' warning naming -coverage (a real gcc option CBI does not model)", cap.messages())


TARGETS["codebasin.config:ArgumentParser.parse_args#recorded-findings-2"] = _R.Exhibits([
    ("parse_args:extraction:equals-sign-after-a-single-dash-option", "gcc -I=inc", _x_equals),
    ("parse_args:raises:flag-with-equals-value", "clang -DA -fopenmp=libomp -DB", _x_flag_equals),
    ("parse_args:extraction:argument-word-of-an-unmodelled-option", "gcc -Xassembler -Iasminc -Xlinker -DA hi.c", _x_xassembler),
    ("parse_args:raises:-Xclang", "clang -Xclang -include -Xclang inc/foo.h m.c", _x_xclang),
    ("command-string-form:posix-quoting", 'command: gcc "-DX=\\$5" -DA \\<newline>-DB -c x.c', _x_posix_quoting),
    ("parse_args:unknown-option-explained-by-abbreviation", "gcc -coverage -DA", _x_abbreviation),
])
