/-
  /verif/lean/Theory.lean

  The finite-set / big-operator facts that pyvc/bigop.py hands to z3 as axioms
  (sum over the empty set, insertion, erasure) or as explicit lemma instances
  (congr, mono, nonneg, zero, scaling, split, disjoint union, cardinality
  facts, prefix sums), each restated over Mathlib's `Finset` and closed by the
  Mathlib lemma named in the evidence files.  What stays trusted is the
  transcription "Array K Bool + fin predicate" <-> `Finset K` (assumption A10).
-/
import Mathlib.Algebra.BigOperators.Group.Finset.Basic
import Mathlib.Algebra.BigOperators.Ring.Finset
import Mathlib.Algebra.Order.BigOperators.Group.Finset
import Mathlib.Data.Finset.Card

open Finset

variable {K : Type*} [DecidableEq K]

-- BigSum axioms
example (f : K → ℤ) : ∑ k ∈ (∅ : Finset K), f k = 0 := Finset.sum_empty
example (f : K → ℤ) (s : Finset K) (a : K) (h : a ∉ s) :
    ∑ k ∈ insert a s, f k = ∑ k ∈ s, f k + f a := by
  rw [Finset.sum_insert h, add_comm]
example (f : K → ℤ) (s : Finset K) (a : K) (h : a ∈ s) :
    ∑ k ∈ s, f k = ∑ k ∈ s.erase a, f k + f a := (Finset.sum_erase_add s f h).symm

-- lemma instances
example (f g : K → ℤ) (s : Finset K) (h : ∀ k ∈ s, f k = g k) :
    ∑ k ∈ s, f k = ∑ k ∈ s, g k := Finset.sum_congr rfl h
example (f g : K → ℤ) (s : Finset K) (h : ∀ k ∈ s, f k ≤ g k) :
    ∑ k ∈ s, f k ≤ ∑ k ∈ s, g k := Finset.sum_le_sum h
example (f : K → ℤ) (s : Finset K) (h : ∀ k ∈ s, 0 ≤ f k) : 0 ≤ ∑ k ∈ s, f k := Finset.sum_nonneg h
example (f : K → ℤ) (s : Finset K) (h : ∀ k ∈ s, f k = 0) : ∑ k ∈ s, f k = 0 := Finset.sum_eq_zero h
example (f g : K → ℤ) (c : ℤ) (s : Finset K) (h : ∀ k ∈ s, f k = c * g k) :
    ∑ k ∈ s, f k = c * ∑ k ∈ s, g k := by
  rw [Finset.mul_sum]; exact Finset.sum_congr rfl h
example (f a b : K → ℤ) (s : Finset K) (h : ∀ k ∈ s, f k = a k + b k) :
    ∑ k ∈ s, f k = ∑ k ∈ s, a k + ∑ k ∈ s, b k := by
  rw [← Finset.sum_add_distrib]; exact Finset.sum_congr rfl h
example (f : K → ℤ) (s t : Finset K) (h : Disjoint s t) :
    ∑ k ∈ s ∪ t, f k = ∑ k ∈ s, f k + ∑ k ∈ t, f k := Finset.sum_union h

-- cardinality facts
example (s : Finset K) : s.card = 0 ↔ s = ∅ := Finset.card_eq_zero
example (s : Finset K) (h : s.card ≤ 1) : ∀ a ∈ s, ∀ b ∈ s, a = b := Finset.card_le_one.mp h
example (s : Finset K) (h : 1 < s.card) : ∃ a ∈ s, ∃ b ∈ s, a ≠ b := Finset.one_lt_card.mp h
example (s t : Finset K) (h : s ⊆ t) : s.card ≤ t.card := Finset.card_le_card h
example (l : List K) (s : Finset K) (hn : l.Nodup) (hm : ∀ a ∈ l, a ∈ s) : l.length ≤ s.card := by
  have : l.toFinset ⊆ s := by intro a ha; exact hm a (List.mem_toFinset.mp ha)
  calc l.length = l.toFinset.card := (List.toFinset_card_of_nodup hn).symm
    _ ≤ s.card := Finset.card_le_card this

-- prefix sums
example (f : ℕ → ℤ) : ∑ i ∈ Finset.range 0, f i = 0 := Finset.sum_range_zero f
example (f : ℕ → ℤ) (n : ℕ) : ∑ i ∈ Finset.range (n + 1), f i = ∑ i ∈ Finset.range n, f i + f n :=
  Finset.sum_range_succ f n
example (f : ℕ → ℤ) (a b : ℕ) (hab : a ≤ b) (h : ∀ i, 0 ≤ f i) :
    ∑ i ∈ Finset.range a, f i ≤ ∑ i ∈ Finset.range b, f i :=
  Finset.sum_le_sum_of_subset_of_nonneg (Finset.range_mono hab) (fun i _ _ => h i)
