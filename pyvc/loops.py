"""pyvc.loops -- for/while: unrolling of concrete loops, invariant cut for the rest."""
import ast
import z3

from .values import *  # noqa
from .state import *   # noqa
from . import ops, bigop
from .symex import View, MAX_UNROLL


def loop_nodes(fn_node):
    out = []

    def visit(n):
        for c in ast.iter_child_nodes(n):
            if isinstance(c, (ast.FunctionDef, ast.Lambda, ast.ClassDef)):
                continue
            if isinstance(c, (ast.For, ast.While)):
                out.append(c)
            visit(c)
    visit(fn_node)
    out.sort(key=lambda n: (n.lineno, n.col_offset))
    return out


def assigned_names(body):
    names = set()
    for s in body:
        for n in ast.walk(s):
            if isinstance(n, ast.Name) and isinstance(n.ctx, (ast.Store, ast.Del)):
                names.add(n.id)
            elif isinstance(n, ast.ExceptHandler) and n.name:
                names.add(n.name)
    return names


def same_value(a, b):
    if a is b:
        return True
    if type(a) is not type(b):
        return False
    if isinstance(a, VMap):
        return a.dom.eq(b.dom) and a.valarr.eq(b.valarr)
    if isinstance(a, VObj):
        return a.oid == b.oid
    if isinstance(a, VTuple):
        return len(a.items) == len(b.items) and all(same_value(x, y) for x, y in zip(a.items, b.items))
    if isinstance(a, VSeq) and a.items is not None and b.items is not None:
        return len(a.items) == len(b.items) and all(same_value(x, y) for x, y in zip(a.items, b.items))
    if hasattr(a, "t") and hasattr(b, "t"):
        return a.t.eq(b.t)
    if isinstance(a, (VNone, VEmptySet, VEmptySeq, VEmptyMap)):
        return True
    if isinstance(a, VFunc):
        return a.what == b.what and a.payload == b.payload
    return False


class LoopMixin:
    def loop_ordinal(self, node):
        fi = self.fn_stack[-1]
        nodes = getattr(fi, "_loops", None)
        if nodes is None:
            nodes = fi._loops = loop_nodes(fi.node)
        for i, n in enumerate(nodes):
            if n is node:
                return i
        raise Unsupported("loop not indexed")

    def loop_spec(self, node):
        c = self.current_contract()
        if c is None:
            return None, None
        o = self.loop_ordinal(node)
        return c.loops.get(o), o

    # ---------------------------------------------------------------- for
    def stmt_For(self, st, s):
        if s.orelse:
            raise Unsupported("for/else")
        out = []
        for st1, it in self.eval(st, s.iter):
            if isinstance(it, Exc):
                out.append((st1, Raise(it)))
                continue
            out.extend(self.for_over(st1, s, it))
        return out

    def for_over(self, st, s, it):
        spec, ordinal = self.loop_spec(s)
        itv = ops.deref(st, it)
        if isinstance(itv, VOpt):
            itv = itv.get()
        # concrete sequences: unroll
        items = None
        if isinstance(itv, (VEmptySeq, VEmptySet, VEmptyMap)):
            items = []
        elif isinstance(itv, (VSeq, VTuple)) and getattr(itv, "items", None) is not None:
            items = itv.items
        elif isinstance(itv, VStr) and concrete_str(itv.t) is not None:
            items = [VStr(c) for c in concrete_str(itv.t)]
        elif isinstance(itv, VComp) and itv.over[0] == "enumerate":
            inner = itv.over[1]
            if getattr(inner, "items", None) is not None:
                items = [VTuple([VInt(itv.over[2] + i), x]) for i, x in enumerate(inner.items)]
        elif isinstance(itv, VComp) and itv.over[0] == "range":
            lo, hi = concrete_int(itv.over[1]), concrete_int(itv.over[2])
            if lo is not None and hi is not None and hi - lo <= MAX_UNROLL:
                items = [VInt(i) for i in range(lo, hi)]
        if items is not None and spec is None:
            if len(items) > MAX_UNROLL:
                raise Unsupported("concrete loop too long to unroll")
            return self.unroll_for(st, s, items)
        if spec is None:
            raise Unsupported(f"loop at line {s.lineno} in {self.fn_stack[-1].key} needs an invariant")
        # symbolic iteration
        if isinstance(itv, VAtom) and isinstance(itv.kind, Abstract) and "__iter__" in itv.kind.attrs:
            ek = itv.kind.attrs["__iter__"]            # element kind; iteration = arbitrary enumeration of a set
            f = z3.Function(f"{itv.kind.name}.__iter__", itv.kind.sort(), SetOf(ek).sort())
            sset = VSet(ek, f(itv.t))
            st.assume(bigop.fin(sset.t))
            return self.cut_set_loop(st, s, spec, ordinal, sset, lambda x: x)
        if isinstance(itv, VComp) and itv.over[0] == "seq" and itv.elem is not None:
            base, ivar = itv.over[1], itv.over[2]
            flt = itv.dom
            if hasattr(itv.elem, "t") and itv.elem.t.eq(base.at(ivar).t):
                mk = lambda i, x: x                                         # noqa: E731
            elif hasattr(itv.elem, "t") and not getattr(itv, "extra_pc", None):
                el = itv.elem
                mk = lambda i, x: el.kind.wrap(z3.substitute(el.t, (ivar, i)))  # noqa: E731
            else:
                raise Unsupported("loop over a comprehension whose elements are not single terms")
            return self.cut_seq_loop(st, s, spec, ordinal, base, mk,
                                     keep=lambda i: z3.substitute(flt, (ivar, i)))
        if isinstance(itv, VSet):
            return self.cut_set_loop(st, s, spec, ordinal, itv, lambda x: x)
        if isinstance(itv, VMap):
            return self.cut_set_loop(st, s, spec, ordinal, VSet(itv.key, itv.dom), lambda k: k)
        if isinstance(itv, VComp) and itv.over[0] in ("mapkeys", "mapitems", "mapvalues"):
            m = itv.over[1]
            mk = {"mapkeys": lambda k: k,
                  "mapitems": lambda k: VTuple([k, m.get(k)]),
                  "mapvalues": lambda k: m.get(k)}[itv.over[0]]
            return self.cut_set_loop(st, s, spec, ordinal, VSet(m.key, m.dom), mk)
        if isinstance(itv, VComp) and itv.over[0] == "pairs":
            return self.cut_set_loop(st, s, spec, ordinal, itv.over[1], itv.over[2], extra_assume=itv.over[3])
        if isinstance(itv, VComp) and itv.over[0] == "setmap":
            # elements drawn from a set through a per-element function with side conditions
            return self.cut_set_loop(st, s, spec, ordinal, itv.over[1], itv.over[2])
        if isinstance(itv, VSeq):
            return self.cut_seq_loop(st, s, spec, ordinal, itv, lambda i, x: x)
        if isinstance(itv, VComp) and itv.over[0] == "enumerate":
            start = itv.over[2]
            return self.cut_seq_loop(st, s, spec, ordinal, itv.over[1],
                                     lambda i, x: VTuple([VInt(i + start), x]))
        raise Unsupported(f"iteration over {itv!r} at line {s.lineno}")

    def unroll_for(self, st, s, items):
        results = []
        live = [st]
        for x in items:
            nxt = []
            for s1 in live:
                for s2, oc in self.assign(s1, s.target, x):
                    if not isinstance(oc, Normal):
                        results.append((s2, oc))
                        continue
                    for s3, oc3 in self.exec_block(s2, s.body):
                        if isinstance(oc3, (Normal, Continue)):
                            nxt.append(s3)
                        elif isinstance(oc3, Break):
                            results.append((s3, NORMAL))
                        else:
                            results.append((s3, oc3))
            live = nxt
        results.extend((s1, NORMAL) for s1 in live)
        return results

    # ------------------------------------------------------- invariant cut
    def _snapshot(self, st):
        snap = {}
        for oid, o in st.heap.items():
            if o.k == "cell":
                snap[(oid, None)] = o.val
            else:
                for f, v in o.fields.items():
                    snap[(oid, f)] = v
        return snap

    def _havoc_value(self, st, v, kind, hint):
        if kind is None:
            vv = v
            kind = getattr(vv, "kind", None)
            if isinstance(vv, (VEmptySet, VEmptySeq, VEmptyMap)) or kind is None:
                if isinstance(vv, (VFunc, VNone)):
                    return vv
                raise Unsupported(f"cannot infer kind to havoc '{hint}' ({vv!r}); declare it in the loop spec")
        new = kind.fresh(self.ctx, hint)
        if isinstance(new, VMap) and isinstance(v, VMap):
            new.default = v.default
        for f in kind.wf(new):
            st.assume(f)
        return new

    def _cell_name(self, st, key):
        oid, fld = key
        for n, v in st.env.items():
            if isinstance(v, VObj) and v.oid == oid:
                return n if fld is None else f"{n}.{fld}"
        for n, v in st.env.items():
            if isinstance(v, VObj) and st.heap[v.oid].k == "inst":
                for f2, v2 in st.heap[v.oid].fields.items():
                    if isinstance(v2, VObj) and v2.oid == oid:
                        return f"{n}.{f2}" if fld is None else f"{n}.{f2}.{fld}"
        return f"#{oid}" + (f".{fld}" if fld else "")

    def _cut(self, st, s, spec, ordinal, run_iteration, make_extra, exit_assume):
        """Generic invariant cut.
        make_extra(state, ghost) -> extra dict for the invariant view
        run_iteration(head_state, ghost) -> [(state, outcome, ghost_after)]"""
        unit = self.unit_name()
        fi = self.fn_stack[-1]
        tag = f"{unit}/{fi.node.name}/loop{ordinal}"
        names = assigned_names(s.body)
        if isinstance(s, ast.For):
            for n in ast.walk(s.target):
                if isinstance(n, ast.Name):
                    names.add(n.id)
        entry = st.fork()
        entry_view = View(entry, entry.env)
        args_view = self.entry_views[-1] if self.entry_views else None
        stack = st.ghost.get("loop_stack", ())
        outer_view = stack[-1] if stack else None

        def inv_view(state, ghost):
            extra = dict(make_extra(state, ghost))
            extra["entry"] = entry_view
            extra["args"] = args_view
            extra["outer"] = outer_view
            if "trace_cell" in state.ghost:
                extra["trace"] = state.heap[state.ghost["trace_cell"].oid].val
            if "log_cell" in state.ghost:
                extra["log"] = state.heap[state.ghost["log_cell"].oid].val
            if "yield_cell" in state.ghost:
                extra["yielded"] = state.heap[state.ghost["yield_cell"].oid].val
            return View(state, state.env, extra)

        # establish
        g0 = {"first": True}
        for label, f in spec.invariant(inv_view(st, g0)):
            self.ctx.oblige(f"{tag}/establish:{label}", st, f, "loop-establish", s.lineno)

        mod_cells = set()
        passes = 0
        while True:
            passes += 1
            if passes > 6:
                raise Unsupported("loop frame inference did not converge")
            mark = len(self.ctx.obligations)
            names_mark = dict(self.ctx.names)
            head = st.fork()
            for n in sorted(names):
                if n in head.env:
                    cur = head.env[n]
                    if ops.is_cell(head, cur):
                        mod_cells.add((cur.oid, None))
                        # rebinding may also happen; keep identity, havoc content below
                        continue
                    if isinstance(cur, VObj):
                        continue
                    head.env[n] = self._havoc_value(head, cur, spec.kinds.get(n), n)
            for key in sorted(mod_cells, key=str):
                oid, fld = key
                if oid not in head.heap:
                    continue
                o = head.heap[oid]
                nm = self._cell_name(head, key)
                if fld is None:
                    o.val = self._havoc_value(head, o.val, spec.kinds.get(nm), nm)
                else:
                    cur = o.fields[fld]
                    if isinstance(cur, VObj):
                        continue
                    o.fields[fld] = self._havoc_value(head, cur, spec.kinds.get(nm), nm)
            ghost = {"first": False}
            extra = make_extra(head, ghost)
            L = inv_view(head, ghost)
            for label, f in spec.invariant(L):
                head.assume(f)
            if spec.hints:
                for f in spec.hints(L):
                    head.assume(f)
            snap = self._snapshot(head)
            head_env = dict(head.env)
            # one arbitrary iteration
            results = []
            changed = set()
            iter_state = head.fork()
            import types
            iter_state.ghost["loop_stack"] = tuple(stack) + (types.SimpleNamespace(**make_extra(iter_state, ghost)),)
            for s2, oc, g2 in run_iteration(iter_state, ghost):
                # frame inference: only paths that flow back to the loop head carry changes
                for key, old in (snap.items() if isinstance(oc, (Normal, Continue)) else ()):
                    if key in mod_cells or key[0] not in s2.heap:
                        continue
                    o = s2.heap[key[0]]
                    cur = o.val if key[1] is None else o.fields.get(key[1])
                    if cur is None or not same_value(old, cur):
                        changed.add(key)
                results.append((s2, oc, g2))
            if changed:
                mod_cells |= changed
                del self.ctx.obligations[mark:]
                self.ctx.names = names_mark
                continue
            break
        out = []
        for s2, oc, g2 in results:
            if isinstance(oc, (Normal, Continue)):
                L2 = inv_view(s2, g2)
                for label, f in spec.invariant(L2):
                    self.ctx.oblige(f"{tag}/preserve:{label}", s2, f, "loop-preserve", s.lineno)
                if spec.decreases is not None:
                    d0 = spec.decreases(inv_view(head, ghost))
                    d1 = spec.decreases(L2)
                    self.ctx.oblige(f"{tag}/decreases", s2, z3.And(d0 >= 0, d1 < d0), "loop-decreases", s.lineno)
            elif isinstance(oc, Break):
                out.append((s2, NORMAL))
            else:
                out.append((s2, oc))
        # exit path(s)
        ex = head.fork()
        r = exit_assume(ex, ghost)
        exits = []
        if r and isinstance(r[0], tuple):
            exits = list(r)                    # [(state, outcome)] computed by the loop kind
        else:
            for f in r:
                ex.assume(f)
            if self.feasible(ex):
                exits = [(ex, NORMAL)]
        if spec.post is not None:
            for s_ex, oc in exits:
                if isinstance(oc, Normal):
                    Lx = inv_view(s_ex, ghost)
                    for label, f in spec.post(Lx):
                        self.ctx.oblige(f"{tag}/exit-lemma:{label}", s_ex, f, "loop-exit-lemma", s.lineno)
                        s_ex.assume(f)
        out.extend(exits)
        return out

    def cut_set_loop(self, st, s, spec, ordinal, sset, mk_elem, extra_assume=None):
        seen0 = VSet.empty(sset.elem)

        def make_extra(state, ghost):
            if ghost.get("first"):
                return {"seen": seen0, "domain": sset}
            if "seen" not in ghost:
                sv = sset.kind.fresh(self.ctx, "seen")
                x = z3.Const(self.ctx.fresh_name("sx"), sset.elem.sort())
                state.assume(bigop.fin(sv.t))
                state.assume(z3.ForAll([x], z3.Implies(sv.t[x], sset.t[x])))
                ghost["seen"] = sv
            return {"seen": ghost["seen"], "domain": sset}

        def run_iteration(state, ghost):
            seen = ghost["seen"]
            k = sset.elem.fresh(self.ctx, "it")
            state.assume(sset.contains(k))
            state.assume(z3.Not(seen.contains(k)))
            elem = mk_elem(k)
            if extra_assume is not None:
                for f in extra_assume(k, elem):
                    state.assume(f)
            g2 = {"seen": seen.add(k), "first": False, "cur": k}
            res = []
            for s2, oc in self.assign(state, s.target, elem):
                if not isinstance(oc, Normal):
                    res.append((s2, oc, g2))
                    continue
                for s3, oc3 in self.exec_block(s2, s.body):
                    res.append((s3, oc3, g2))
            return res

        def exit_assume(state, ghost):
            return [ghost["seen"].t == sset.t]

        return self._cut(st, s, spec, ordinal, run_iteration, make_extra, exit_assume)

    def cut_seq_loop(self, st, s, spec, ordinal, seq, mk_elem, keep=None):
        n = seq.length()

        def make_extra(state, ghost):
            if ghost.get("first"):
                return {"i": z3.IntVal(0), "seq": seq}
            if "i" not in ghost:
                i = z3.Int(self.ctx.fresh_name("i"))
                state.assume(i >= 0)
                state.assume(i <= n)
                ghost["i"] = i
            return {"i": ghost["i"], "seq": seq}

        def run_iteration(state, ghost):
            i = ghost["i"]
            state.assume(i < n)
            g2 = {"i": i + 1, "first": False}
            res = []
            if keep is not None:
                kept, dropped = self.split(state, keep(i))
                if dropped:
                    res.append((dropped, Continue(), g2))      # filtered out by the comprehension
                if not kept:
                    return res
                state = kept
            for s2, oc in self.assign(state, s.target, mk_elem(i, seq.at(i))):
                if not isinstance(oc, Normal):
                    res.append((s2, oc, g2))
                    continue
                for s3, oc3 in self.exec_block(s2, s.body):
                    res.append((s3, oc3, g2))
            return res

        def exit_assume(state, ghost):
            return [ghost["i"] == n]

        return self._cut(st, s, spec, ordinal, run_iteration, make_extra, exit_assume)

    # -------------------------------------------------------------- while
    def stmt_While(self, st, s):
        if s.orelse:
            raise Unsupported("while/else")
        spec, ordinal = self.loop_spec(s)
        if spec is None:
            return self.unroll_while(st, s)

        def make_extra(state, ghost):
            return {}

        def run_iteration(state, ghost):
            res = []
            for s1, c in self.eval(state, s.test):
                if isinstance(c, Exc):
                    res.append((s1, Raise(c), ghost))
                    continue
                t, _ = self.split(s1, ops.truth(s1, c))
                if t:
                    for s3, oc3 in self.exec_block(t, s.body):
                        res.append((s3, oc3, ghost))
            return res

        def exit_assume(state, ghost):
            res = []
            for s1, c in self.eval(state, s.test):
                if isinstance(c, Exc):
                    continue                   # already reported by run_iteration
                _, f = self.split(s1, ops.truth(s1, c))
                if f:
                    res.append((f, NORMAL))
            return res or [z3.BoolVal(False)]

        return self._cut(st, s, spec, ordinal, run_iteration, make_extra, exit_assume)

    def unroll_while(self, st, s):
        results = []
        live = [st]
        for _ in range(MAX_UNROLL):
            nxt = []
            for s1 in live:
                for s2, c in self.eval(s1, s.test):
                    if isinstance(c, Exc):
                        results.append((s2, Raise(c)))
                        continue
                    t, f = self.split(s2, ops.truth(s2, c))
                    if f:
                        results.append((f, NORMAL))
                    if t:
                        for s3, oc3 in self.exec_block(t, s.body):
                            if isinstance(oc3, (Normal, Continue)):
                                nxt.append(s3)
                            elif isinstance(oc3, Break):
                                results.append((s3, NORMAL))
                            else:
                                results.append((s3, oc3))
            live = nxt
            if not live:
                return results
        raise Unsupported(f"while loop at line {s.lineno} needs an invariant (not unrollable)")
