"""
pyvc.pyint -- Python's unbounded-integer shift / bitwise operators and numpy's
64-bit scalar types, for functions that implement machine arithmetic on top of
Python ints (ExpressionEvaluator.__wrap/__apply_*).

Encoding (all in the theory of integers; recorded as assumptions A2b):
  x << n   = x * 2**n   (ValueError for n < 0)            -- language reference 6.9
  x >> n   = floor(x / 2**n)
  2**n     = the constant for 0 <= n <= 64, an unconstrained positive integer beyond
  ~x       = -x - 1
  x & y, x | y, x ^ y : a fresh integer r with
             r mod 2**64 == OP64(x mod 2**64, y mod 2**64),  0 <= OP64(..) < 2**64
           i.e. Python's infinite two's-complement operators agree with the 64-bit
           operators on the low 64 bits; the bit-level meaning of OP64 itself is
           abstract (uninterpreted), which is all the plumbing proofs need.
  np.int64(v) / np.uint64(v): the value v tagged signed / unsigned; OverflowError
           when v is outside the type's range (numpy's behaviour for Python ints).
"""
import z3

from .values import *  # noqa
from .state import *   # noqa

M64 = 2 ** 64
NPINT = TupleKey("NpInt", [("unsigned", BOOL), ("val", INT)])

_I = z3.IntSort()
OP64 = {"&": z3.Function("bits64_and", _I, _I, _I), "|": z3.Function("bits64_or", _I, _I, _I),
        "^": z3.Function("bits64_xor", _I, _I, _I)}
_pow2_big = z3.Function("py_pow2_beyond64", _I, _I)
_counter = [0]

ASSUMED_NOTE = ("A2b Python int operators: x<<n == x*2**n, x>>n == floor(x/2**n), ~x == -x-1; "
                "(x OP y) mod 2**64 == OP64(x mod 2**64, y mod 2**64) for OP in & | ^ with OP64 abstract; "
                "np.int64/np.uint64 of a Python int: tagged value, OverflowError outside the range")


def is_npint(v):
    return isinstance(v, VAtom) and v.kind is NPINT or (isinstance(v, VAtom) and getattr(v.kind, "name", None) == NPINT.name)


def unsigned(v):
    return NPINT.field(v.t, 0)


def val(v):
    return NPINT.field(v.t, 1)


def valid(v):
    """the values numpy can hold"""
    u, x = unsigned(v), val(v)
    return z3.If(u, z3.And(x >= 0, x < M64), z3.And(x >= -(2 ** 63), x < 2 ** 63))


def pow2(n):
    c = concrete_int(n)
    if c is not None and c >= 0:
        return z3.IntVal(2 ** c)
    t = _pow2_big(n)
    for k in range(64, -1, -1):
        t = z3.If(n == k, z3.IntVal(2 ** k), t)
    return t


def binop(st, op, x, y, line):
    cx, cy = concrete_int(x), concrete_int(y)
    if cx is not None and cy is not None:
        try:
            r = {"<<": lambda: cx << cy, ">>": lambda: cx >> cy, "&": lambda: cx & cy, "|": lambda: cx | cy,
                 "^": lambda: cx ^ cy}[op]()
        except ValueError:
            return [(None, Exc("ValueError", line))]
        return [(None, VInt(z3.IntVal(r)))]
    if op in ("<<", ">>"):
        p = pow2(y)
        st.assume(z3.Implies(y > 64, _pow2_big(y) >= 1))
        r = x * p if op == "<<" else x / p          # z3 integer division is floor for a positive divisor
        return [(y < 0, Exc("ValueError", line)), (y >= 0, VInt(r))]
    _counter[0] += 1
    r = z3.Int(f"py{ {'&': 'and', '|': 'or', '^': 'xor'}[op] }!{_counter[0]}")
    f = OP64[op]
    st.assume(r % M64 == f(x % M64, y % M64))
    st.assume(z3.And(f(x % M64, y % M64) >= 0, f(x % M64, y % M64) < M64))
    return [(None, VInt(r))]


def make(ctx_unsigned, v):
    return NPINT.pack([VBool(ctx_unsigned) if not isinstance(ctx_unsigned, V) else ctx_unsigned, v])


def np_scalar(ex, st, pos, kw, node, is_unsigned):
    from . import ops
    if len(pos) != 1 or kw:
        raise Unsupported("np.int64/np.uint64 with other than one argument")
    v = ops.deref(st, pos[0])
    if is_npint(v):
        x = val(v)
    elif isinstance(v, (VInt, VBool)):
        x = ops.to_int(v).t
    else:
        raise Unsupported(f"np scalar of {v!r}")
    lo, hi = (0, M64) if is_unsigned else (-(2 ** 63), 2 ** 63)
    ok = z3.And(x >= lo, x < hi)
    res = NPINT.pack([VBool(z3.BoolVal(is_unsigned)), VInt(x)])
    return ex.guarded(st, [(ok, res), (z3.Not(ok), Exc("OverflowError", node.lineno))])
