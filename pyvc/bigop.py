"""
pyvc.bigop -- finite sets, cardinality and big sums over finite sets.

The only non-definitional axioms of the engine live here (assumption A10).
Each is the transcription of a Mathlib lemma proved/checked in
/verif/lean/Theory.lean (see the `lean` field of every axiom record).

  fin(S)                      S is a finite set (predicate on Array(K,Bool))
  BigSum F(params, S)         sum of summand(params, k) for k in S
       F(p, {})        = 0                                  Finset.sum_empty
       F(p, S + {k})   = F(p,S) + summand(p,k)   (k not in S, fin S)
                                                            Finset.sum_insert
  on request (explicit lemma instances, never quantified axioms):
       congr   pointwise equal summands  => equal sums       Finset.sum_congr
       mono    pointwise <=              => <=               Finset.sum_le_sum
       nonneg  pointwise >= 0            => >= 0             Finset.sum_nonneg
       scale   F[c*f](S) = c * F[f](S)                       Finset.mul_sum
       zero    pointwise == 0            => == 0             Finset.sum_eq_zero
       split   F[f+g] = F[f]+F[g]                            Finset.sum_add_distrib
"""
import z3

_fin_preds = {}
_axioms = []          # list of (owner symbol name, formula, lean-lemma)
_registry = {}
_lemma_uses = []      # (kind, lean lemma) instances used in this process


def reset():
    _fin_preds.clear()
    _axioms.clear()
    _registry.clear()
    _lemma_uses.clear()


def lemma_uses():
    return list(_lemma_uses)


def _sortkey(s):
    return "".join(c if c.isalnum() else "_" for c in str(s))


def fin(S):
    srt = S.sort()
    key = _sortkey(srt)
    if key not in _fin_preds:
        p = z3.Function("fin!" + key, srt, z3.BoolSort())
        _fin_preds[key] = p
        ks = srt.domain()
        S0 = z3.Const("S0!" + key, srt)
        k0 = z3.Const("k0!" + key, ks)
        b0 = z3.Const("b0!" + key, z3.BoolSort())
        _axioms.append((p.name(), p(z3.K(ks, z3.BoolVal(False))), "Set.finite_empty"))
        _axioms.append((p.name(),
                        z3.ForAll([S0, k0, b0],
                                  z3.Implies(p(S0), p(z3.Store(S0, k0, b0))),
                                  patterns=[p(z3.Store(S0, k0, b0))]),
                        "Set.Finite.insert / Set.Finite.subset"))
    return _fin_preds[key](S)


class BigSum:
    """F(params..., S) = sum over k in S of summand(params..., k)."""

    def __init__(self, name, params, key_sort, summand, real=False):
        assert name not in _registry, name
        _registry[name] = self
        self.name = name
        self.params = params              # list of (name, sort)
        self.key_sort = key_sort
        self.summand = summand
        self.real = real
        self.set_sort = z3.ArraySort(key_sort, z3.BoolSort())
        rs = z3.RealSort() if real else z3.IntSort()
        self.f = z3.Function(name, *[s for _, s in params], self.set_sort, rs)
        ps = [z3.Const(f"{name}!{n}", s) for n, s in params]
        S = z3.Const(f"{name}!!set", self.set_sort)
        k = z3.Const(f"{name}!!key", key_sort)
        zero = z3.RealVal(0) if real else z3.IntVal(0)
        empty = z3.K(key_sort, z3.BoolVal(False))
        e = self.f(*ps, empty) == zero
        _axioms.append((name, z3.ForAll(ps, e) if ps else e, "Finset.sum_empty"))
        ins = z3.Store(S, k, z3.BoolVal(True))
        _axioms.append((name,
                        z3.ForAll(ps + [S, k],
                                  z3.Implies(z3.And(fin(S), z3.Not(z3.Select(S, k))),
                                             self.f(*ps, ins) == self.f(*ps, S) + summand(*ps, k)),
                                  patterns=[self.f(*ps, ins)]),
                        "Finset.sum_insert"))
        # removal form: k in S  =>  F(S) = F(S - {k}) + summand(k)
        rem = z3.Store(S, k, z3.BoolVal(False))
        _axioms.append((name,
                        z3.ForAll(ps + [S, k],
                                  z3.Implies(z3.And(fin(S), z3.Select(S, k)),
                                             self.f(*ps, S) == self.f(*ps, rem) + summand(*ps, k)),
                                  patterns=[self.f(*ps, rem)]),
                        "Finset.sum_erase_add / Finset.add_sum_erase"))

    def __call__(self, *args):
        return self.f(*args)

    # ---- lemma instances (ground implications, recorded as trusted uses) ----
    def _bound(self, tag):
        return z3.Const(f"{self.name}!{tag}", self.key_sort)

    def congr(self, p1, p2, S):
        k = self._bound("kc")
        _lemma_uses.append(("congr:" + self.name, "Finset.sum_congr"))
        return z3.Implies(
            z3.ForAll([k], z3.Implies(z3.Select(S, k),
                                      self.summand(*p1, k) == self.summand(*p2, k))),
            self.f(*p1, S) == self.f(*p2, S))

    def nonneg(self, p, S):
        k = self._bound("kn")
        _lemma_uses.append(("nonneg:" + self.name, "Finset.sum_nonneg"))
        return z3.Implies(
            z3.ForAll([k], z3.Implies(z3.Select(S, k), self.summand(*p, k) >= 0)),
            self.f(*p, S) >= 0)

    def zero(self, p, S):
        k = self._bound("kz")
        _lemma_uses.append(("zero:" + self.name, "Finset.sum_eq_zero"))
        return z3.Implies(
            z3.ForAll([k], z3.Implies(z3.Select(S, k), self.summand(*p, k) == 0)),
            self.f(*p, S) == 0)

    def mono(self, p, other, q, S):
        """self(p,S) <= other(q,S) when pointwise <= on S"""
        k = self._bound("km")
        _lemma_uses.append((f"mono:{self.name}<={other.name}", "Finset.sum_le_sum"))
        return z3.Implies(
            z3.ForAll([k], z3.Implies(z3.Select(S, k),
                                      self.summand(*p, k) <= other.summand(*q, k))),
            self.f(*p, S) <= other.f(*q, S))

    def eq_other(self, p, other, q, S):
        """self(p,S) == other(q,S) when summands agree pointwise on S"""
        k = self._bound("ke")
        _lemma_uses.append((f"congr:{self.name}=={other.name}", "Finset.sum_congr"))
        return z3.Implies(
            z3.ForAll([k], z3.Implies(z3.Select(S, k),
                                      self.summand(*p, k) == other.summand(*q, k))),
            self.f(*p, S) == other.f(*q, S))

    def scaled(self, p, other, q, c, S):
        """self(p,S) == c * other(q,S) when summand_self == c*summand_other on S"""
        k = self._bound("ks")
        _lemma_uses.append((f"scale:{self.name}=c*{other.name}", "Finset.mul_sum"))
        return z3.Implies(
            z3.ForAll([k], z3.Implies(z3.Select(S, k),
                                      self.summand(*p, k) == c * other.summand(*q, k))),
            self.f(*p, S) == c * other.f(*q, S))

    def split(self, p, a, pa, b, pb, S):
        """self(p,S) == a(pa,S)+b(pb,S) when summands add pointwise on S"""
        k = self._bound("kp")
        _lemma_uses.append((f"split:{self.name}={a.name}+{b.name}", "Finset.sum_add_distrib"))
        return z3.Implies(
            z3.ForAll([k], z3.Implies(z3.Select(S, k),
                                      self.summand(*p, k) == a.summand(*pa, k) + b.summand(*pb, k))),
            self.f(*p, S) == a.f(*pa, S) + b.f(*pb, S))


def card_of(key_sort):
    name = "card!" + _sortkey(key_sort)
    if name in _registry:
        return _registry[name]
    return BigSum(name, [], key_sort, lambda k: z3.IntVal(1))


def card(S):
    c = card_of(S.sort().domain())
    return c(S)


def card_facts(S):
    """card >= 0 and card == 0 <=> empty, as lemma instances for a given S
    (Finset.card_eq_zero, Nat.zero_le)."""
    _lemma_uses.append(("card-facts", "Finset.card_eq_zero"))
    ks = S.sort().domain()
    c = card(S)
    x = z3.Const("cf!x!" + _sortkey(ks), ks)
    y = z3.Const("cf!y!" + _sortkey(ks), ks)
    _lemma_uses.append(("card<=1 / card>1", "Finset.card_le_one, Finset.one_lt_card"))
    return [c >= 0,
            z3.Implies(fin(S), (c == 0) == (S == z3.K(ks, z3.BoolVal(False)))),
            z3.Implies(z3.And(fin(S), c <= 1),
                       z3.ForAll([x, y], z3.Implies(z3.And(z3.Select(S, x), z3.Select(S, y)), x == y))),
            z3.Implies(z3.And(fin(S), c > 1),
                       z3.Exists([x, y], z3.And(z3.Select(S, x), z3.Select(S, y), x != y)))]


def nodup_seq_card(seq, S):
    """a duplicate-free sequence of members of the finite set S is no longer than card(S)
    (List.Nodup.length_le_card / Finset.card_le_card_of_injOn)"""
    _lemma_uses.append(("nodup-seq-card", "Finset.card_le_card_of_injOn"))
    i, j = z3.Ints("nd!i nd!j")
    n = seq.n
    members = z3.ForAll([i], z3.Implies(z3.And(0 <= i, i < n), z3.Select(S, seq.arr[i])))
    distinct = z3.ForAll([i, j], z3.Implies(z3.And(0 <= i, i < j, j < n), seq.arr[i] != seq.arr[j]))
    return z3.Implies(z3.And(fin(S), members, distinct), n <= card(S))


def subset_facts(sub, sup):
    """sub is (by construction) a subset of sup: finiteness and cardinality carry over
    (Set.Finite.subset, Finset.card_le_card)"""
    _lemma_uses.append(("subset", "Set.Finite.subset, Finset.card_le_card"))
    return [z3.Implies(fin(sup), fin(sub)), z3.Implies(fin(sup), card(sub) <= card(sup))]


def union_facts(a, b, u):
    _lemma_uses.append(("union", "Set.Finite.union"))
    return [z3.Implies(z3.And(fin(a), fin(b)), fin(u))]


def union_disjoint(F, p, A, B, U):
    """U == A u B, A n B == {}  =>  F(U) == F(A) + F(B)   (Finset.sum_union)"""
    _lemma_uses.append(("union-disjoint:" + F.name, "Finset.sum_union"))
    k = F._bound("ku")
    return z3.Implies(z3.And(fin(A), fin(B),
                             z3.ForAll([k], z3.Not(z3.And(z3.Select(A, k), z3.Select(B, k)))),
                             z3.ForAll([k], z3.Select(U, k) == z3.Or(z3.Select(A, k), z3.Select(B, k)))),
                      F.f(*p, U) == F.f(*p, A) + F.f(*p, B))


def add_axiom(owner, formula, why):
    _axioms.append((owner, formula, why))


def _symbols(t, acc, seen):
    i = t.get_id()
    if i in seen:
        return
    seen.add(i)
    if z3.is_quantifier(t):
        _symbols(t.body(), acc, seen)
        for j in range(t.num_patterns()):
            _symbols(t.pattern(j), acc, seen)
        return
    if z3.is_app(t):
        acc.add(t.decl().name())
        for c in t.children():
            _symbols(c, acc, seen)


def relevant_axioms(formulas):
    """axioms whose owner symbol occurs (transitively) in the formulas"""
    syms, seen = set(), set()
    for f in formulas:
        _symbols(f, syms, seen)
    chosen, used = [], set()
    changed = True
    while changed:
        changed = False
        for i, (owner, ax, why) in enumerate(_axioms):
            if i in used or owner not in syms:
                continue
            used.add(i)
            chosen.append((owner, ax, why))
            _symbols(ax, syms, seen)
            changed = True
    return chosen


class PrefixSum:
    """F(params..., n) = sum_{0 <= i < n} term(params..., i)  (recursive definition;
    unfolding instances are supplied explicitly by `step`, Finset.sum_range_succ)."""

    def __init__(self, name, params, term):
        self.name, self.params, self.term = name, params, term
        self.f = z3.Function(name, *[s for _, s in params], z3.IntSort(), z3.IntSort())
        ps = [z3.Const(f"{name}!{n}", s) for n, s in params]
        e = self.f(*ps, z3.IntVal(0)) == 0
        _axioms.append((name, z3.ForAll(ps, e) if ps else e, "Finset.sum_range_zero"))

    def __call__(self, *args):
        return self.f(*args)

    def step(self, p, i):
        _lemma_uses.append(("unfold:" + self.name, "Finset.sum_range_succ"))
        return z3.Implies(i >= 0, self.f(*p, i + 1) == self.f(*p, i) + self.term(*p, i))

    def mono(self, p, a, b):
        """prefix sums of non-negative terms are monotone (Finset.sum_le_sum_of_subset_of_nonneg)"""
        _lemma_uses.append(("mono:" + self.name, "Finset.sum_le_sum_of_subset_of_nonneg"))
        i = z3.Int(self.name + "!mi")
        return z3.Implies(z3.And(0 <= a, a <= b,
                                 z3.ForAll([i], z3.Implies(z3.And(a <= i, i < b), self.term(*p, i) >= 0))),
                          self.f(*p, a) <= self.f(*p, b))
