"""Native (concrete, exact-rational) evaluation of the C07 contracts on the real functions."""
import itertools
import math
import random
from fractions import Fraction

from codebasin import report

PLATS3 = ["a", "b", "c"]
NAN = "NaN"


def subsets(ps):
    out = []
    for r in range(len(ps) + 1):
        out += [frozenset(c) for c in itertools.combinations(ps, r)]
    return out


def setmaps(ps, counts):
    keys = subsets(ps)
    for combo in itertools.product([None] + counts, repeat=len(keys)):
        yield {k: v for k, v in zip(keys, combo) if v is not None}


def random_setmap(rng):
    n = rng.randint(1, 8)
    ps = [f"p{i}" for i in range(n)]
    m = {}
    for _ in range(rng.randint(0, 12)):
        k = frozenset(p for p in ps if rng.random() < 0.4)
        m[k] = rng.choice([0, 1, 2, rng.randint(0, 10 ** 12)])
    return m, ps


def all_plats(m):
    return set().union(*m.keys()) if m else set()


# ---- exact specs (from the property statement)
def spec_cov(m, H):
    tot = sum(m.values())
    if tot == 0 or not set(H):           # undefined: no lines / no platforms
        return NAN
    used = sum(v for k, v in m.items() if k & set(H))
    return Fraction(100 * used, tot)


def spec_avg(m, H):
    H = set(H)
    if not H:
        return NAN
    vals = [spec_cov(m, {h}) for h in H]
    if NAN in vals:
        return NAN
    return sum(vals) / len(H)


def spec_dist(m, a, b):
    un = sum(v for k, v in m.items() if a in k or b in k)
    xo = sum(v for k, v in m.items() if (a in k) != (b in k))
    if sum(m.values()) == 0:             # undefined: no lines
        return NAN
    if un == 0:                          # two platforms that use no line at all have the same (empty) line set
        return Fraction(0)
    return Fraction(xo, un)


def spec_div(m):
    ps = sorted(all_plats(m))
    pairs = list(itertools.combinations(ps, 2))
    if not pairs:
        return NAN
    ds = [spec_dist(m, a, b) for a, b in pairs]
    if NAN in ds:
        return NAN
    return sum(ds) / len(pairs)


def agree(observed, expected):
    if expected == NAN:
        return isinstance(observed, float) and math.isnan(observed)
    if isinstance(observed, float) and math.isnan(observed):
        return False
    if not isinstance(observed, (int, float)):
        return False
    e = float(expected)
    return abs(float(observed) - e) <= 1e-9 * max(1.0, abs(e))


def call(f, *a):
    try:
        return f(*a)
    except Exception as e:      # noqa: BLE001
        return f"raised {type(e).__name__}: {e}"


def enc_map(m):
    return [[sorted(k), v] for k, v in sorted(m.items(), key=lambda kv: (len(kv[0]), sorted(kv[0])))]


def dec_map(l):
    return {frozenset(k): v for k, v in l}


class Base:
    proved = True

    def bound(self, tier):
        return ("all setmaps over 2 platforms, counts {absent,0,1,3}" if tier == "quick" else
                "all setmaps over 3 platforms with counts {absent,0,1,2} restricted to <=5 keys, plus 3000 random "
                "maps over <=8 platforms with counts up to 10^12")

    def maps(self, tier, seed):
        for m in setmaps(["a", "b"], [0, 1, 3]):
            yield m, ["a", "b"]
        # platform names where one is a substring of the other (membership vs substring tests)
        for m in setmaps(["gpu", "gpu-fp64"], [0, 1, 3]):
            yield m, ["gpu", "gpu-fp64"]
        # tables on which a sum of separately rounded quotients leaves [0, 1] or depends on the order of the entries
        A, B, C = "A", "B", "C"
        yield {frozenset([A]): 2, frozenset([B]): 4, frozenset([A, C]): 3, frozenset([B, C]): 1}, [A, B, C]
        yield {frozenset([B]): 6, frozenset([A, C]): 23, frozenset([B, C]): 1}, [A, B, C]
        yield {frozenset([A]): 0, frozenset([B]): 0, frozenset([C]): 5}, [A, B, C]
        if tier == "thorough":
            for m in setmaps(PLATS3, [0, 1, 2]):
                if len(m) <= 5:
                    yield m, PLATS3
            rng = random.Random(seed)
            for _ in range(3000):
                yield random_setmap(rng)

    def nontrivial(self, inp):
        return len(inp["m"]) >= 2


class Coverage(Base):
    fn = staticmethod(lambda m, H: report.coverage(m, H))
    spec = staticmethod(spec_cov)
    name = "coverage"

    def inputs(self, tier, seed):
        for m, ps in self.maps(tier, seed):
            opts = [None, set()] + [set(s) for s in subsets(ps[:3]) if s] + [[ps[0]]]
            for H in opts:
                yield {"m": m, "H": H}

    def check(self, inp):
        m, H = inp["m"], inp["H"]
        eff = H if H is not None else all_plats(m)      # the selection as given; only an absent argument means "all"
        exp = self.spec(m, eff)
        obs = call(self.fn, dict(m), H)
        if not agree(obs, exp):
            return {"expected": str(exp), "observed": str(obs), "klass": self.name + ":" + ("nan" if exp == NAN else "value")}
        return None

    def encode(self, inp):
        return {"m": enc_map(inp["m"]), "H": None if inp["H"] is None else sorted(inp["H"]),
                "H_is_list": isinstance(inp["H"], list)}

    def decode(self, j):
        H = j["H"]
        if H is not None and not j.get("H_is_list"):
            H = set(H)
        return {"m": dec_map(j["m"]), "H": H}


class AvgCoverage(Coverage):
    fn = staticmethod(lambda m, H: report.average_coverage(m, H))
    spec = staticmethod(spec_avg)
    name = "average_coverage"

    def inputs(self, tier, seed):
        for m, ps in self.maps(tier, seed):
            for H in [None, set()] + [set(s) for s in subsets(ps[:3]) if s]:
                yield {"m": m, "H": H}


class Distance(Base):
    def inputs(self, tier, seed):
        for m, ps in self.maps(tier, seed):
            for a in ps[:3] + ["zz"]:
                for b in ps[:3] + ["zz"]:
                    yield {"m": m, "a": a, "b": b}

    def check(self, inp):
        m, a, b = inp["m"], inp["a"], inp["b"]
        exp = spec_dist(m, a, b)
        obs = call(report.distance, dict(m), a, b)
        if not agree(obs, exp):
            kl = "distance:union-empty" if (exp == NAN or exp == 0) else "distance:value"
            return {"expected": str(exp), "observed": str(obs), "klass": kl}
        if exp != NAN:
            if not (0.0 <= obs <= 1.0):
                return {"expected": "a value in [0, 1] (exact value " + str(exp) + ")", "observed": repr(obs), "klass": "distance:range"}
            for perm in (list(reversed(list(m.items()))), sorted(m.items(), key=lambda kv: (kv[1], sorted(kv[0])))):
                o2 = call(report.distance, dict(perm), a, b)
                if o2 != obs:
                    return {"expected": f"the same value for every order of the table's entries ({obs!r})", "observed": repr(o2),
                            "klass": "distance:order-of-entries"}
        return None

    def encode(self, inp):
        return {"m": enc_map(inp["m"]), "a": inp["a"], "b": inp["b"]}

    def decode(self, j):
        return {"m": dec_map(j["m"]), "a": j["a"], "b": j["b"]}


class Divergence(Base):
    def inputs(self, tier, seed):
        for m, ps in self.maps(tier, seed):
            yield {"m": m}

    def check(self, inp):
        m = inp["m"]
        exp = spec_div(m)
        obs = call(report.divergence, dict(m))
        if not agree(obs, exp):
            return {"expected": str(exp), "observed": str(obs),
                    "klass": "divergence:" + ("nan" if exp == NAN else "value")}
        return None

    def encode(self, inp):
        return {"m": enc_map(inp["m"])}

    def decode(self, j):
        return {"m": dec_map(j["m"])}


class ExtractPlatforms(Base):
    def inputs(self, tier, seed):
        for m, ps in self.maps(tier, seed):
            yield {"m": m}

    def check(self, inp):
        m = inp["m"]
        obs = call(report.extract_platforms, dict(m))
        ok = isinstance(obs, list) and len(obs) == len(set(obs)) and set(obs) == all_plats(m)
        if not ok:
            return {"expected": str(sorted(all_plats(m))), "observed": str(obs), "klass": "extract_platforms"}
        return None

    def encode(self, inp):
        return {"m": enc_map(inp["m"])}

    def decode(self, j):
        return {"m": dec_map(j["m"])}


TARGETS = {
    "codebasin.report:coverage": Coverage(),
    "codebasin.report:average_coverage": AvgCoverage(),
    "codebasin.report:distance": Distance(),
    "codebasin.report:divergence": Divergence(),
    "codebasin.report:extract_platforms": ExtractPlatforms(),
}
