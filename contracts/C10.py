"""
Contracts for C10 -- excluding files removes their lines from the counts and
changes nothing else.

Decided by non-interference over contracts proved elsewhere:
  * association (finder.find per-entry block, C08; IncludeNode, C04) never
    consults code-base membership: the block has no `codebase` parameter at all;
  * counting (get_setmap, C06) reads membership only through the enumeration of
    the code base, so the result is a sum over the enumerated canonical files;
  * hence removing files from the enumeration removes exactly their summands
    (lemma `exclusion-removes-exactly-the-excluded-files'-lines`);
  * -x patterns and patterns in the analysis file end up in one list handed to
    CodeBase (syntactic obligations on _main / _tree / _compute).
"""
import ast
import z3

from pyvc.contract import contract, lemma
from pyvc.values import *  # noqa
from pyvc import bigop
import contracts.C06 as C06      # get_setmap
import contracts.C08 as C08      # find block  # noqa: F401
import contracts.C09 as C09      # membership  # noqa: F401
from pyvc.fsmodel import PATH
from pyvc.speclib import PSet


@lemma("exclusion-removes-exactly-the-excluded-files'-lines", props=["C10"])
def _():
    """Total(files) == Total(kept) + Total(removed) for a disjoint split of the enumerated files"""
    T = C06.Total()
    tv = z3.Const("x!trees", z3.ArraySort(PATH.sort(), C06.TREE.sort()))
    mv = z3.Const("x!maps", z3.ArraySort(PATH.sort(), C06.ASSOCV.sort()))
    cb = z3.Const("x!cb", C06.CB.sort())
    S = z3.Const("x!S", PSet.sort())
    kept = z3.Const("x!kept", SetOf(PATH).sort())
    removed = z3.Const("x!removed", SetOf(PATH).sort())
    f = z3.Const("x!f", PATH.sort())
    both = z3.Lambda([f], z3.Or(kept[f], removed[f]))
    hyps = [bigop.fin(kept), bigop.fin(removed), z3.ForAll([f], z3.Not(z3.And(kept[f], removed[f]))),
            bigop.union_disjoint(T, (tv, mv, cb, S), kept, removed, both)]
    return [("Total(kept+removed)==Total(kept)+Total(removed)", hyps,
             T(tv, mv, cb, S, both) == T(tv, mv, cb, S, kept) + T(tv, mv, cb, S, removed))]


def extra_obligations(index, tier):
    out = []
    # association never consults membership
    fi = index.func("codebasin.finder:find")
    uses = [n for n in ast.walk(fi.node) if isinstance(n, ast.Name) and n.id == "codebase"]
    src = ast.unparse(fi.node)
    out.append(("find reads the code base only to pre-parse its files (set(codebase))",
                len(uses) == 1 and "filenames = set(codebase)" in src, f"{len(uses)} uses (the parameter itself is an ast.arg)", "codebasin.finder:find", "pattern"))
    for mod in ("codebasin.preprocessor", "codebasin.platform", "codebasin.file_parser", "codebasin.file_source"):
        names = {n.id for n in ast.walk(index.modules[mod]) if isinstance(n, ast.Name)} | \
                {n.attr for n in ast.walk(index.modules[mod]) if isinstance(n, ast.Attribute)}
        out.append((f"no membership test reachable from association: {mod} does not mention CodeBase/codebase/__contains__",
                    not ({"CodeBase", "codebase", "__contains__"} & names), "", "codebasin.finder:find"))
    # exclude plumbing of the three front ends
    for key, call in (("codebasin.__main__:_main", "CodeBase(rootdir, exclude_patterns=args.excludes)"),
                      ("codebasin.tree:_tree", "CodeBase(rootdir, exclude_patterns=args.excludes)"),
                      ("codebasin.coverage.__main__:_compute", "CodeBase(source_dir, exclude_patterns=args.excludes)")):
        s = ast.unparse(index.func(key).node)
        out.append((f"{key.split(':')[1]} builds the code base from the collected exclude list", call in s, "", key, "pattern"))
        if "_compute" not in key:
            out.append((f"{key.split(':')[1]} puts the -x patterns after the analysis file's (one ordered list, command line last)",
                        "args.excludes = analysis_toml['codebase']['exclude'] + args.excludes" in s, "", key, "pattern"))
    out += [o for o in C08.extra_obligations(index, tier) if o[0].startswith("structure/")]
    out += [o for o in C09.extra_obligations(index, tier) if o[0].startswith("the exclude list")]
    return out


UNITS = ["codebasin.finder:ParserState.get_setmap", "codebasin.finder:find@loop4", "codebasin:CodeBase.__contains__",
         "codebasin.finder:ParserState.insert_file"]
import contracts.C15 as C15      # noqa: E402,F401  (insert_file)
ASSUMPTIONS = ["the assumptions of C06, C08, C09 and C15 for the shared units",
               "argparse / tomllib deliver the -x list and the [codebase] exclude list (A6)"]
NOT_COVERED = ["a file first parsed through an #include inherits the includer's language, a pre-parsed member its own: "
               "excluding a header included from a Fortran file can change how that header's own lines are classified (not its effect on others)"]
EXPLANATION = ("Non-interference: association never reads membership, counting reads it only through the enumeration; exclusion "
               "therefore removes exactly the excluded files' summands.")
