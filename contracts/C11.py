"""
C11 -- -D/-I/-isystem/-include are extracted from any command line, robustly.

The recognition is performed by CPython's argparse (and shlex for the string
form); CBI contributes an option table.  A deductive proof would be a proof
about a model of argparse, which is the thing in doubt; so the deciding part
of this check is BOUNDED (native/C11.py) and the level claimed is `other`.
Proved here: the option table registered by parse_args (syntactic obligations
over the real ast).
"""
import ast

LEVEL = "other"
import contracts.C13 as _C13      # noqa: E402,F401  (CompileCommand.arguments: the arguments form is returned unchanged, else shlex.split(command))

UNITS = ["codebasin:CompileCommand.arguments"]

def extra_obligations(index, tier):
    fi = index.func("codebasin.config:ArgumentParser.parse_args")
    calls = []
    for n in ast.walk(fi.node):
        if isinstance(n, ast.Call) and isinstance(n.func, ast.Attribute) and n.func.attr == "add_argument" \
                and isinstance(n.func.value, ast.Name) and n.func.value.id == "parser":
            flags = [a.value for a in n.args if isinstance(a, ast.Constant)]
            kw = {k.arg: (k.value.value if isinstance(k.value, ast.Constant) else ast.unparse(k.value)) for k in n.keywords}
            calls.append((flags, kw))
    want = [
        (["-D"], {"dest": "defines", "action": "append"}),
        (["-I", "-isystem"], {"dest": "include_paths", "action": "append"}),
        (["-include"], {"dest": "include_files", "action": "append"}),
    ]
    key = "codebasin.config:ArgumentParser.parse_args"
    out = []
    for flags, kw in want:
        ok = any(f == flags and all(k.get(a) == b for a, b in kw.items()) for f, k in calls)
        out.append((f"option-table/{'/'.join(flags)}->{kw['dest']}({kw['action']})", ok, str(calls), key))
    src = ast.unparse(fi.node)
    out.append(("parse_known_args(argv + implicit options, namespace)",
                "parser.parse_known_args(argv + self.compiler.options, namespace)" in src, "", key, "pattern"))
    out.append(("parser does not abbreviate or exit", "allow_abbrev=False" in src and "exit_on_error=False" in src, "", key, "pattern"))
    out.append(("every configuration copies the three lists",
                all(f"args.{x}.copy()" in src for x in ("defines", "include_paths", "include_files")), "", key, "pattern"))
    ci = index.func("codebasin:CompileCommand.arguments")
    out.append(("command-string-form goes through shlex.split", "shlex.split(self._command)" in ast.unparse(ci.node), "",
                "codebasin:CompileCommand.arguments", "pattern"))
    return out


ASSUMPTIONS = ["A6 argparse and shlex are CPython's and are not verified; the extraction itself is only checked up to the stated bound"]
NOT_COVERED = ["an unbounded statement about argparse's behaviour on the registered option table"]
EXPLANATION = ("Bounded: every argument vector of <= 2 (quick) / <= 3 (thorough) tokens over a catalogue of recognised options in "
               "both spellings and unmodelled real compiler flags, plus seeded random longer vectors, is run through the real "
               "ArgumentParser('gcc').parse_args and compared with the extraction the statement prescribes; the command-string "
               "form is checked as a shlex round trip. The registered option table is checked syntactically on the real ast.")
