"""
Native bounded check for C03: macro definition and expansion vs a conforming
preprocessor.  Oracle: `gcc -E -P` (installed) on the same macro table and
invocation; both outputs are re-lexed with the repository's Lexer and compared
token for token.  Also: a definition given as -DNAME / -DNAME=value /
-D'NAME(args)=value' builds the same macro as the corresponding #define.
Bounded, never counted as proved (no contract within reach expresses the
expansion algorithm; see DESIGN 6).
"""
import itertools
import os
import random
import re
import subprocess
import tempfile

from codebasin import preprocessor
from codebasin.platform import Platform

OBJ_BODIES = ["1", "X", "Y + 1", "(X)", "F(2)", "", "X ## 1", "p q", "(1 + E())", "F()", "F", "1 + F", "2 * G", "E"]
FUN_DEFS = [("E", "()", ["1", "", "X"]),
            ("F", "(a)", ["a", "a + 1", "a * G", "#a", "a ## 1", "x ## a", "(a)", "F(a)", "G(a)", "a a", "", "X a", "(a + E())", "V(a)"]),
            ("G", "(a, b)", ["a b", "a + b", "b a", "a ## b", "#a #b", "F(a) b", "a", "G(a, b)", "F(b)", "(a, b)"]),
            ("V", "(a, ...)", ["a __VA_ARGS__", "#__VA_ARGS__", "F(__VA_ARGS__)", "a", "__VA_ARGS__", "G(__VA_ARGS__)", "W(__VA_ARGS__, a)"]),
            ("W", "(...)", ["__VA_ARGS__", "G(__VA_ARGS__)", "#__VA_ARGS__", "V(__VA_ARGS__)", "F((__VA_ARGS__))", "x ## __VA_ARGS__"])]
ARGS1 = ["2", "x y", "(1, 2)", "", "F(3)", "X", "\"s t\"", "  p  q  ", "7 * F", "F", "E", "3 + E"]
ARGS2 = [("1", "2"), ("x", ""), ("", "y"), ("F(1)", "G(2, 3)"), ("(p, q)", "c"), ("X", "X"),
         # later arguments that themselves call the (variadic) macro they are passed to, or reach it through another macro
         ("V(1, 2)", "V(3, 4, 5)"), ("W(1)", "W(2, W(3))"), ("F(1)", "F(2)"), ("X", "Y")]


def tables(rng, n):
    for _ in range(n):
        defs = []
        xb = rng.choice(OBJ_BODIES)
        if xb not in ("X", "(X)") or rng.random() < 0.5:
            defs.append(f"#define X {xb}")
        if rng.random() < 0.5:
            defs.append("#define Y " + rng.choice(["X", "2", "Y", "F(X)"]))
        for name, params, bodies in FUN_DEFS:
            if rng.random() < 0.8:
                defs.append(f"#define {name}{params} {rng.choice(bodies)}")
        yield defs


def invocations(rng):
    a = rng.choice(ARGS1)
    b = rng.choice(ARGS2)
    return rng.choice([f"F({a})", f"G({b[0]}, {b[1]})", "X", "Y", f"F(F({a}))", f"F({a})({a})", f"V({a}, {b[0]}, {b[1]})", f"V({a})",
                       f"X F({a}) Y", f"G(F({a}), X)", "F", f"F ({a})", f"G({a}, G({b[0]}, {b[1]}))",
                       # the same macro used twice in one directive (state left behind by the first use)
                       # a function-like macro name that ends a replacement / an argument and finds its "(" in the enclosing text
                       f"F({a})({b[0]}, {b[1]})", f"X({a})", f"X ({b[0]}, {b[1]})", f"Y({a})", f"F({a})()", f"G({b[0]}, {b[1]})({a})",
                       f"V({a})({a})", f"F(F)({a})", f"X({a}) X({a})",
                       f"V({a}, {b[0]}, {b[1]}, {a})", f"W({b[0]}, {b[1]})", f"W({a}, {b[0]}, {b[1]})", f"W({a})", "W()",
                       f"V({b[1]}, {a}, V({b[0]}, {b[1]}))", f"W(W({b[0]}), W({b[1]}, {a}))",
                       f"F({a}) + F({b[0]})", "X * X", f"G({b[0]}, {b[1]}) G({b[1]}, {b[0]})", "E() E()", f"F() F({a})", "Y + Y"])


def gcc_expand(cases):
    """cases: list of (defs, invocation) -> list of output strings (None when gcc diagnoses the case)"""
    outs = []
    with tempfile.TemporaryDirectory(prefix="cbi_c03_") as d:
        procs = []
        for i, (defs, inv) in enumerate(cases):
            p = os.path.join(d, f"c{i}.c")
            with open(p, "w") as fh:
                fh.write("\n".join(defs) + "\n" + inv + "\n")
        for i in range(len(cases)):
            r = subprocess.run(["gcc", "-E", "-P", "-w", "-std=c11", os.path.join(d, f"c{i}.c")], capture_output=True, text=True)
            outs.append(r.stdout.strip() if r.returncode == 0 and not r.stderr.strip() else None)
    return outs


def cbi_expand(defs, inv):
    # the directive nodes of a file are parsed once and evaluated once per platform / translation unit that reaches
    # them: the expansion must be the same every time (nothing a first evaluation leaves behind in the shared nodes
    # may change a later one)
    nodes = [preprocessor.DirectiveParser(preprocessor.Lexer(dline).tokenize()).parse() for dline in defs]
    outs = []
    for name in ("p", "q"):
        plat = Platform(name, "/")
        for node in nodes:
            node.evaluate_for_platform(platform=plat, filename="x.c", state=None)
        toks = preprocessor.Lexer(inv).tokenize()
        outs.append([str(t) for t in preprocessor.MacroExpander(plat).expand(toks)])
    if outs[0] != outs[1]:
        raise AssertionError(f"the same definitions evaluated for a second platform expand differently: {outs[0]} then {outs[1]}")
    return outs[0]


def relex(text):
    return [str(t) for t in preprocessor.Lexer(text).tokenize()]


# a second, structured family: names of function-like macros that travel through aliases, arguments and
# identity-like macros before they meet their "(" (rescanning together with the rest of the source text)
RESCAN_F = ["x + 1", "x", "(x) * A"]
RESCAN_A = ["F", "1 + F", "F F", "ID"]
RESCAN_ID = ["m", "m m", "(m)", "m + 0"]
RESCAN_H = ["a b", "b a", "a"]
# ## chains (ISO C 6.10.3.5 EXAMPLE 5 shapes): any subset of the operands may be empty
PASTE_DEFS = ["#define T(x, y, z) x ## y ## z", "#define U(x, y, z) p x ## y ## z", "#define W(x, y, z) x ## y ## z q",
              "#define K(x, y) [x ## y]", "#define Q(x, y, z, w) x ## y ## z ## w"]
PASTE_ARGS = ["", "1", "a", "12"]


def paste_cases():
    for d in PASTE_DEFS:
        name = d.split()[1].split("(")[0]
        n = d.split("(")[1].split(")")[0].count(",") + 1
        for args in itertools.product(PASTE_ARGS, repeat=n):
            if sum(1 for a in args if a) <= 2:           # results stay valid tokens (at most two non-empty operands)
                yield {"defs": [d], "inv": f"{name}({','.join(args)})"}
    # character constants whose spelling is a parameter name, a comma, a parenthesis or # are constants, nothing else
    for defs, inv in ((["#define F(c) (c == 'c')"], "F(98)"), (["#define F(x) 'x'"], "F(1) == 120"), (["#define ID(x) x"], "ID(',') == 44"),
                      (["#define ADD(a, b) a + b"], "ADD('(', ')')"), (["#define F(c) (c == '#')"], "F(35)"),
                      (["#define G(a, b) a b"], "G(')', '(')")):
        yield {"defs": defs, "inv": inv}
    # identifiers that are words of the implementation language are ordinary macro names
    for nm in ("None", "True", "self", "ident", "EXPANSION"):
        yield {"defs": [f"#define {nm} 5", "#define ID(x) x"], "inv": f"{nm} + ID({nm})"}


RESCAN_INV = ["ID(A)(2)", "ID(F)(2)", "ID(7 * A)(2)", "A(2)", "A (A(2))", "H(A, 1)(2)", "H(1, A)(2)", "ID(ID(A))(2)", "ID(A(3))",
              "ID(A)(ID(2))", "ID(A)", "ID(A)(2) ID(A)(3)", "ID(ID)(A)(2)", "H(ID, A)(2)", "ID(A)(2)(3)", "H(A, A)(2)"]


def rescan_cases():
    for f, a, i, h in itertools.product(RESCAN_F, RESCAN_A, RESCAN_ID, RESCAN_H):
        defs = [f"#define F(x) {f}", f"#define A {a}", f"#define ID(m) {i}", f"#define H(a, b) {h}"]
        for inv in RESCAN_INV:
            yield {"defs": defs, "inv": inv}


class Expansion:
    proved = False
    role = "bounded check of macro expansion against gcc -E (never counted as proved)"

    def bound(self, tier):
        n = 600 if tier == "quick" else 6000
        m = 250 if tier == "quick" else len(RESCAN_F) * len(RESCAN_A) * len(RESCAN_ID) * len(RESCAN_H) * len(RESCAN_INV)
        return (f"{n} seeded random (macro table, invocation) pairs: object- and function-like macros of <= 3 parameters, # and ##, "
                "variadic, nested / parenthesised / empty arguments, direct, mutual and argument-borne recursion; "
                f"{m} of the {len(RESCAN_F) * len(RESCAN_A) * len(RESCAN_ID) * len(RESCAN_H) * len(RESCAN_INV)} structured rescanning cases "
                "(function-like names reaching their parenthesis through aliases, arguments and identity macros); oracle gcc -E -P")

    def inputs(self, tier, seed):
        rng = random.Random(seed)
        n = 600 if tier == "quick" else 6000
        for defs in tables(rng, n):
            yield {"defs": defs, "inv": invocations(rng)}
        allr = list(rescan_cases())
        if tier == "quick":
            allr = random.Random(seed + 7).sample(allr, 250)
        yield from allr
        yield from paste_cases()

    def nontrivial(self, inp):
        return getattr(self, "_valid", False)

    def check(self, inp):
        self._valid = False
        want = gcc_expand([(inp["defs"], inp["inv"])])[0]
        if want is None:
            return None                       # gcc diagnoses the program: outside the quantifier
        self._valid = True
        try:
            want_toks = relex(want)
        except Exception:                     # noqa: BLE001
            return None
        try:
            got = cbi_expand(inp["defs"], inp["inv"])
        except BaseException as e:            # noqa: BLE001
            kl = feature(inp)
            if kl == "other" and isinstance(e, IndexError) and invalid_subcall(inp):
                # the recorded finding: a call with too few arguments sits in an argument that is never expanded (an operand of
                # # or ##), so the program is valid, but the argument is examined all the same
                kl = "call-with-too-few-arguments-inside-an-argument"
            return {"expected": want, "observed": f"raised {type(e).__name__}: {e}", "klass": "expansion:" + kl}
        if got != want_toks:
            kl = feature(inp)
            if kl == "other" and [x.replace(" ", "") for x in got] == [x.replace(" ", "") for x in want_toks]:
                kl = "white-space-inside-a-stringified-argument"
                if any("#__VA_ARGS__" in d for d in inp["defs"]) and re.search(r"\s,", inp["inv"]):
                    # the recorded finding: the commas between variable arguments are rebuilt without the blank before them
                    kl = "stringified-variadic-arguments-lose-the-blank-before-a-comma"
            return {"expected": want_toks, "observed": got, "klass": "expansion:" + kl}
        return None


def invalid_subcall(inp):
    """does the invocation contain a macro call that gcc diagnoses when it stands alone (while the whole is valid)?"""
    inv, subs = inp["inv"], []
    for m in re.finditer(r"\b[A-Z]\s*\(", inv):
        depth, j = 0, m.end() - 1
        for j in range(m.end() - 1, len(inv)):
            depth += {"(": 1, ")": -1}.get(inv[j], 0)
            if depth == 0:
                break
        if depth == 0 and inv[m.start():j + 1] != inv.strip():
            subs.append(inv[m.start():j + 1])
    return any(o is None for o in gcc_expand([(inp["defs"], x) for x in subs]))


def feature(inp):
    """root-cause class of a deviation (for known-finding matching); anything else is 'other'"""
    import re
    inv = inp["inv"]
    m = re.match(r"\s*([A-Z])\s*\((.*)\)\s*$", inv, re.S)
    bodies = {}
    for d in inp["defs"]:
        mm = re.match(r"#define (\w+)(\([^)]*\))? ?(.*)$", d)
        if mm:
            bodies[mm.group(1)] = (mm.group(2), mm.group(3))
    if m and m.group(1) in bodies and "##" in bodies[m.group(1)][1] and re.search(r"\b" + m.group(1) + r"\s*\(", m.group(2)):
        return "paste-operand-calls-the-same-macro"
    # a macro body calling a two-parameter macro with one argument, reached only through an argument that is not pre-expanded
    for name, (params, body) in bodies.items():
        if re.search(r"\bG\(\s*a\s*\)", body) and "G" in bodies and bodies["G"][0] and "," in bodies["G"][0]:
            return "call-with-too-few-arguments-inside-an-argument"
    return "other"


class DashD:
    """-DNAME / -DNAME=value / -D'NAME(args)=value' vs the corresponding #define"""
    proved = False
    role = "bounded check"

    def bound(self, tier):
        return "all definition strings over 4 heads x 11 values (incl. values that start with '=')"

    def inputs(self, tier, seed):
        for head in ("N", "N(a)", "N(a, b)", "N(a, ...)"):
            for val in (None, "", "1", "a + 1", "a b", "(a)", "x=y", "== 1", "=", "= a", "!= 0"):     # the option is cut at the FIRST "="
                yield {"head": head, "val": val}

    def nontrivial(self, inp):
        return True

    def check(self, inp):
        s = inp["head"] + ("" if inp["val"] is None else "=" + inp["val"])
        line = "#define " + inp["head"] + " " + ("1" if inp["val"] is None else inp["val"])
        try:
            m1 = preprocessor.macro_from_definition_string(s)
            node = preprocessor.DirectiveParser(preprocessor.Lexer(line).tokenize()).parse()
            m2 = preprocessor.make_macro(node.identifier, node.args, node.value)
        except BaseException as e:            # noqa: BLE001
            return {"expected": "both forms accepted", "observed": f"{type(e).__name__}: {e}", "klass": "dash-D:raises"}
        d1 = (m1.name, [str(a) for a in getattr(m1, "args", None) or []], [str(t) for t in m1.replacement], type(m1).__name__)
        d2 = (m2.name, [str(a) for a in getattr(m2, "args", None) or []], [str(t) for t in m2.replacement], type(m2).__name__)
        if d1 != d2:
            return {"expected": d2, "observed": d1, "klass": "dash-D:differs"}
        return None


class Recorded(Expansion):
    """fixed inputs exhibiting the recorded findings (argument tokens spelled like parameter names are kept out
    of the random generator so that this finding cannot mask others)"""
    role = "exhibits recorded findings"

    def bound(self, tier):
        return "5 fixed inputs"

    def inputs(self, tier, seed):
        yield {"defs": ["#define X a b", "#define F(a) a ## 1", "#define G(a, b) F(b)"], "inv": "G(1, X)", "kl": "argument-token-named-like-a-parameter"}
        yield {"defs": ["#define F(a) G(a)", "#define G(a, b) a ## b"], "inv": "G(, G(F(1), G(2, 3)))", "kl": None}
        yield {"defs": ["#define F(a) G(a)", "#define G(a, b) #a #b"], "inv": "G(F(2), X)", "kl": None}
        yield {"defs": ["#define F(a) a ## 1", "#define G(a, b) #a #b"], "inv": "G(F(  p  q  ), X)", "kl": None}
        yield {"defs": ["#define S(...) #__VA_ARGS__"], "inv": "S(1 , 2)", "kl": "stringified-variadic-arguments-lose-the-blank-before-a-comma"}

    def check(self, inp):
        r = super().check(inp)
        if r and inp.get("kl"):
            r["klass"] = "expansion:" + inp["kl"]
        return r


TARGETS = {"codebasin.preprocessor:MacroExpander.expand": Expansion(),
           "codebasin.preprocessor:MacroExpander.expand#recorded-findings": Recorded(),
           "codebasin.preprocessor:macro_from_definition_string": DashD()}
