"""
Native bounded stand-in for the C01 composition (tree construction + pruned
visit + branch stack + macro table) against a flat ISO C 6.10.1 conditional
stack, and refuter for the associator contract.  Bounded, never counted as
proved.
"""
import os
import shutil
import tempfile

from codebasin import CodeBase, finder
from codebasin.preprocessor import CodeNode

KINDS = ["if1", "if0", "ifdefX", "ifndefX", "elif1", "elif0", "elifdefX", "elifbad", "else", "endif",
         "defX", "undefX", "code"]
TEXT = {"if1": "#if 1", "if0": "#if 0", "ifdefX": "#ifdef X", "ifndefX": "#ifndef X", "elif1": "#elif 1",
        "elif0": "#elif 0", "elifdefX": "#elif defined(X)", "elifbad": "#elif (", "else": "#else",
        "endif": "#endif", "defX": "#define X", "undefX": "#undef X", "code": "int v;"}
OPEN = {"if1", "if0", "ifdefX", "ifndefX"}
CONT = {"elif1", "elif0", "elifdefX", "elifbad", "else"}


def sequences(maxlen, kinds):
    """all well-nested sequences (every chain closed, #else last in its chain)"""
    out = []

    def go(seq, stack):
        if len(seq) <= maxlen and not stack and seq:
            out.append(list(seq))
        if len(seq) == maxlen:
            return
        room = maxlen - len(seq)
        for k in kinds:
            if k in OPEN:
                if room >= 2 + len(stack):
                    go(seq + [k], stack + ["open"])
            elif k in CONT:
                if stack and stack[-1] == "open" and room >= 1 + len(stack):
                    go(seq + [k], stack[:-1] + ["else" if k == "else" else "open"])
            elif k == "endif":
                if stack:
                    go(seq + [k], stack[:-1])
            else:
                if room >= 1 + len(stack):
                    go(seq + [k], stack)
    go([], [])
    return out


def reference(seq, x_defined):
    """flat conditional stack: -> (set of 1-based used lines, valid?)"""
    used = set()
    defined = bool(x_defined)
    stack = []       # entries: [parent_live, taken_already, current_branch_live]
    for ln, k in enumerate(seq, start=1):
        live = all(e[2] for e in stack)
        if k in OPEN:
            if live:
                used.add(ln)
                cond = {"if1": True, "if0": False, "ifdefX": defined, "ifndefX": not defined}[k]
                stack.append([True, cond, cond])
            else:
                stack.append([False, False, False])
        elif k in CONT:
            e = stack[-1]
            if e[0]:
                used.add(ln)
                if e[1]:
                    e[2] = False
                else:
                    if k == "elifbad":
                        return None, False          # a real preprocessor diagnoses it
                    cond = {"elif1": True, "elif0": False, "elifdefX": defined, "else": True}[k]
                    e[1] = e[2] = cond
        elif k == "endif":
            e = stack.pop()
            if e[0]:
                used.add(ln)
        else:
            if live:
                used.add(ln)
                if k == "defX":
                    defined = True
                elif k == "undefX":
                    defined = False
    return used, True


class Composition:
    proved = False
    role = ("bounded stand-in for the C01 composition (real tree build + associate vs flat conditional stack); "
            "also the refuter for the associator / macro-table contracts")

    def __init__(self):
        self.dir = None

    def bound(self, tier):
        n = 5 if tier == "quick" else 7
        return f"every well-nested sequence of <= {n} lines over {len(KINDS)} directive kinds, X predefined or not"

    def inputs(self, tier, seed):
        n = 5 if tier == "quick" else 7
        for seq in sequences(n, KINDS):
            for x in (False, True):
                yield {"seq": seq, "x": x}

    def nontrivial(self, inp):
        return any(k in OPEN for k in inp["seq"]) and any(k in CONT for k in inp["seq"])

    def run(self, seq, x):
        if self.dir is None:
            self.dir = tempfile.mkdtemp(prefix="cbi_c01_")
            import atexit
            atexit.register(shutil.rmtree, self.dir, True)
        path = os.path.join(self.dir, "t.c")
        with open(path, "w") as fh:
            fh.write("\n".join(TEXT[k] for k in seq) + "\n")
        cb = CodeBase(self.dir)
        cfg = {"p": [{"file": path, "defines": ["X"] if x else [], "include_paths": [], "include_files": []}]}
        state = finder.find(self.dir, cb, cfg)
        tree, assoc = state.get_tree(path), state.get_map(path)
        used = set()
        for node in tree.walk():
            if isinstance(node, CodeNode) and assoc[node]:
                used.update(node.lines)
        return used

    def check(self, inp):
        exp, valid = reference(inp["seq"], inp["x"])
        if not valid:
            return None
        try:
            obs = self.run(inp["seq"], inp["x"])
        except Exception as e:      # noqa: BLE001
            kl = "elif-evaluated-after-taken-branch" if "elifbad" in inp["seq"] else "analysis-fails"
            return {"expected": sorted(exp), "observed": f"raised {type(e).__name__}: {e}", "klass": "composition:" + kl}
        if obs != exp:
            return {"expected": sorted(exp), "observed": sorted(obs), "klass": "composition:wrong-lines"}
        return None


_comp = Composition()
TARGETS = {
    "codebasin.finder:ParserState.associate.<locals>.associator": _comp,
}
