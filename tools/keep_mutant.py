#!/usr/bin/env python3
"""tools/keep_mutant.py <src dir> <seeded id> <property> <caught: yes|no|partial> <checks run> <result summary>"""
import json, os, shutil, sys
src, sid, prop, caught, ran, summary = sys.argv[1:7]
dst = os.path.join(os.path.dirname(os.path.dirname(os.path.abspath(__file__))), "seeded", sid)
os.makedirs(dst, exist_ok=True)
for f in ("patch.diff", "demo.py", "notes.txt"):
    shutil.copy(os.path.join(src, f), os.path.join(dst, f))
notes = open(os.path.join(src, "notes.txt")).read().strip()
meta = {"id": sid, "breaks_property": prop, "needs_to_manifest": notes,
        "confirmed": "tools/eval_mutant.sh: suite 145 passed with the patch in a scratch worktree; demo.py fails with the patch and passes without",
        "checks_run": ran, "caught": caught, "result": summary,
        "origin": "fresh sub-agent given only the property text and a scratch worktree"}
json.dump(meta, open(os.path.join(dst, "meta.json"), "w"), indent=1)
print("kept", dst)
