"""native/recorded.py -- fixed inputs that exhibit recorded (open) findings of known_findings.json.
Each exhibit runs the real code on one input whose expected result is quoted from the oracle (gcc -E, git
check-ignore, sh) in the item's description.  A finding that stops reproducing simply stops being printed."""
import logging
import os
import shutil
import tempfile


class Exhibits:
    proved = False
    role = "exhibits recorded findings by fixed inputs (kept out of the random generators so that they cannot mask new failures)"

    def __init__(self, items):
        self.items = items           # [(klass, description, fn)] ; fn() -> None | (expected, observed)

    def bound(self, tier):
        return f"{len(self.items)} fixed inputs"

    def inputs(self, tier, seed):
        for i in range(len(self.items)):
            yield {"k": i}

    def nontrivial(self, inp):
        return True

    def check(self, inp):
        klass, desc, fn = self.items[inp["k"]]
        try:
            r = fn()
        except BaseException as e:      # noqa: BLE001
            r = ("no exception", f"raised {type(e).__name__}: {e}")
        if r:
            return {"expected": r[0], "observed": r[1], "klass": klass, "exhibit": desc}
        return None

    def encode(self, inp):
        return {"k": inp["k"], "exhibit": self.items[inp["k"]][1]}

    def decode(self, j):
        return {"k": j["k"]}


class tree:
    """a temporary directory tree: with tree({"a/b.c": "text"}) as root: ..."""

    def __init__(self, files):
        self.files = files

    def __enter__(self):
        self.root = os.path.realpath(tempfile.mkdtemp(prefix="cbi_rec_"))
        for rel, text in self.files.items():
            p = os.path.join(self.root, rel)
            os.makedirs(os.path.dirname(p), exist_ok=True)
            with open(p, "w") as fh:
                fh.write(text)
        return self.root

    def __exit__(self, *a):
        shutil.rmtree(self.root, ignore_errors=True)


class captured:
    """warnings issued by the codebasin loggers inside the block"""

    def __enter__(self):
        self.records = []
        self.h = logging.Handler()
        self.h.emit = self.records.append
        self.lg = logging.getLogger("codebasin")
        self.prev = logging.root.manager.disable
        logging.disable(logging.NOTSET)
        self.level = self.lg.level
        self.lg.setLevel(logging.DEBUG)
        self.lg.addHandler(self.h)
        return self

    def messages(self):
        return [r.getMessage() for r in self.records if r.levelno >= logging.WARNING]

    def __exit__(self, *a):
        self.lg.removeHandler(self.h)
        self.lg.setLevel(self.level)
        logging.disable(self.prev)


def used_lines(root, entries, codebase_dir=None):
    """{relative file: sorted lines attributed to platform 'p'} by the real analysis"""
    from codebasin import CodeBase, finder
    from codebasin.preprocessor import CodeNode
    cb = CodeBase(codebase_dir or root)
    st = finder.find(root, cb, {"p": entries})
    out = {}
    for fn, t in st.trees.items():
        m = st.maps[fn]
        ls = sorted(ln for n in t.walk() if isinstance(n, CodeNode) and m[n] for ln in n.lines)
        out[os.path.relpath(fn, root)] = ls
    return out


def counted_lines(text, suffix=".c"):
    """physical lines counted by FileParser for a file with this text"""
    from codebasin.file_parser import FileParser
    from codebasin.preprocessor import CodeNode, DirectiveNode
    with tree({"t" + suffix: text}) as root:
        t = FileParser(os.path.join(root, "t" + suffix)).parse_file()
        ls = []
        for n in t.walk():
            if isinstance(n, (CodeNode, DirectiveNode)) and hasattr(n, "lines"):
                ls += list(n.lines)
            elif isinstance(n, DirectiveNode):
                ls += list(range(n.start_line, n.end_line + 1))
        return sorted(set(ls))
