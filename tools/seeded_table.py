#!/usr/bin/env python3
"""tools/seeded_table.py -- writes seeded/SUMMARY.md from seeded/*/meta.json (filled in by tools/run_seeded.py)"""
import json, os, re
V = os.path.dirname(os.path.dirname(os.path.abspath(__file__)))
rows = []
for sid in sorted(os.listdir(os.path.join(V, "seeded")), key=lambda s: (s.split("-")[0], int(s.split("-")[1])) if "-" in s else (s, 0)):
    d = os.path.join(V, "seeded", sid)
    if not os.path.isdir(d):
        continue
    m = json.load(open(os.path.join(d, "meta.json")))
    notes = m.get("needs_to_manifest", "")
    first = re.sub(r"\s+", " ", notes.strip().split("\n")[0])[:170]
    files = sorted(set(re.findall(r"^\+\+\+ b/(\S+)", open(os.path.join(d, "patch.diff")).read(), re.M)))
    res = m.get("result") or {}
    per = ", ".join(f"{c}:{v.get('exit')}" for c, v in res.items()) if isinstance(res, dict) else ""
    rows.append(f"| {sid} | {', '.join(files)} | {first} | {m.get('caught')} | {', '.join(m.get('caught_by') or [])} | {per} |")
with open(os.path.join(V, "seeded", "SUMMARY.md"), "w") as fh:
    fh.write("# Seeded changes and the checks that catch them\n\n"
             "Written by `tools/seeded_table.py` from `seeded/*/meta.json`; the meta files are rewritten by `tools/run_seeded.py`, which\n"
             "applies each patch to /repo (`git apply`), runs the related quick checks and undoes it (`git checkout -- .`).\n"
             "Exit codes: 1 = VIOLATION reported, 2 = undecided, 0 = nothing reported, 3 = checker error.\n\n"
             "| id | touches | change (first line of the author's notes) | caught | by | exit per related check |\n|---|---|---|---|---|---|\n")
    fh.write("\n".join(rows) + "\n")
print(len(rows), "rows")
