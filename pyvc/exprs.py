"""pyvc.exprs -- expression evaluation (mixin of the executor)."""
import ast
import z3

from .values import *  # noqa
from .state import *   # noqa
from . import ops, bigop
from .symex import _BINOPS, _CMPOPS, VRefT


class ExprMixin:
    def eval(self, st, node):
        m = getattr(self, "expr_" + type(node).__name__, None)
        if m is None:
            raise Unsupported(f"expression {type(node).__name__} at line {self.line(node)}")
        return m(st, node)

    def eval_all(self, st, nodes):
        res = [(st, [])]
        for n in nodes:
            nxt = []
            for s, vals in res:
                if isinstance(vals, Exc):
                    nxt.append((s, vals))
                    continue
                for s2, v in self.eval(s, n):
                    nxt.append((s2, v if isinstance(v, Exc) else vals + [v]))
            res = nxt
        return res

    def eval_pure(self, st, node):
        """single-path evaluation (comprehension elements, contract-like code)"""
        rs = self.eval(st, node)
        rs = [(s, v) for s, v in rs]
        if len(rs) != 1 or isinstance(rs[0][1], Exc):
            raise Unsupported(f"expression at line {self.line(node)} is not single-path pure")
        return rs[0][1]

    # ---- atoms
    def expr_Constant(self, st, n):
        v = n.value
        if v is None:
            return [(st, VNone())]
        if isinstance(v, bool):
            return [(st, VBool(v))]
        if isinstance(v, int):
            return [(st, VInt(v))]
        if isinstance(v, float):
            return [(st, VFloat.fin(z3.RealVal(repr(v))))]
        if isinstance(v, str):
            return [(st, VStr(v))]
        raise Unsupported(f"constant {v!r}")

    def expr_Name(self, st, n):
        return [(st, self.lookup(st, n.id, n))]

    def lookup(self, st, name, node=None):
        if name in st.env:
            return st.env[name]
        # closure variables
        cenv = st.ghost.get("closure_env")
        fr = st.env.get("$closure")
        if fr is not None and name in fr:
            return fr[name]
        mod = self.cur_module()
        fi = self.index.module_function(mod, name)
        if fi is not None:
            return VFunc("func", fi)
        ci = self.index.class_by_name.get(name)
        imports = self.index.module_imports(mod)
        if name in imports:
            target = imports[name]
            leaf = target.split(".")[-1]
            if target.startswith("codebasin"):
                tm = target.rsplit(".", 1)[0]
                f2 = self.index.funcs.get(f"{tm}:{leaf}")
                if f2 is not None:
                    return VFunc("func", f2)
                if leaf in self.index.class_by_name:
                    return VFunc("class", leaf)
                if target in self.index.modules or tm in self.index.modules:
                    return VFunc("module", target)
            return VFunc("module", target)
        if ci is not None:
            return VFunc("class", name)
        if name in ("True", "False", "None"):
            return {"True": VBool(True), "False": VBool(False), "None": VNone()}[name]
        gl = self.index.module_assign(mod, name)
        if gl is not None and (mod, name) in st.ghost.get("globals", {}):
            return st.ghost["globals"][(mod, name)]
        if gl is not None:
            if name == "log":
                return VFunc("module", "logging.logger")
            return VFunc("global", (mod, name))
        return VFunc("builtin", name)

    def expr_Tuple(self, st, n):
        return [(s, v if isinstance(v, Exc) else VTuple(v)) for s, v in self.eval_all(st, n.elts)]

    def expr_List(self, st, n):
        out = []
        for s, vals in self.eval_all(st, n.elts):
            if isinstance(vals, Exc):
                out.append((s, vals))
                continue
            out.append((s, self.new_list(s, vals)))
        return out

    def new_list(self, st, vals):
        if not vals:
            return st.alloc(HeapObj("cell", val=VEmptySeq()))
        vals = [ops.deref(st, x) if ops.is_cell(st, x) else x for x in vals]
        k = vals[0].kind
        if k is None or any(x.kind != k for x in vals):
            # heterogeneous / object lists keep concrete shape as a tuple-like list
            return st.alloc(HeapObj("cell", val=VTuple(vals)))
        return st.alloc(HeapObj("cell", val=VSeq.of(k, vals)))

    def expr_Set(self, st, n):
        out = []
        for s, vals in self.eval_all(st, n.elts):
            if isinstance(vals, Exc):
                out.append((s, vals))
                continue
            vals = [ops.deref(s, x) for x in vals]
            v = VSet.empty(vals[0].kind)
            for x in vals:
                v = v.add(x)
            out.append((s, s.alloc(HeapObj("cell", val=v))))
        return out

    def expr_Dict(self, st, n):
        if not n.keys:
            return [(st, st.alloc(HeapObj("cell", val=VEmptyMap())))]
        if any(k is None for k in n.keys):
            raise Unsupported("dict unpacking in display")
        out = []
        for s, ks in self.eval_all(st, n.keys):
            if isinstance(ks, Exc):
                out.append((s, ks))
                continue
            for s2, vs in self.eval_all(s, n.values):
                if isinstance(vs, Exc):
                    out.append((s2, vs))
                    continue
                ks2 = [ops.deref(s2, k) for k in ks]
                # string-keyed records with heterogeneous values: concrete-shape object
                cks = [concrete_str(k.t) if isinstance(k, VStr) else None for k in ks2]
                if all(c is not None for c in cks):
                    o = HeapObj("inst", cls="$dict", fields=dict(zip(cks, vs)))
                    out.append((s2, s2.alloc(o)))
                    continue
                vs2 = [ops.deref(s2, v) for v in vs]
                m = VEmptyMap().to(ks2[0].kind, vs2[0].kind)
                for k, v in zip(ks2, vs2):
                    m = m.put(k, v)
                out.append((s2, s2.alloc(HeapObj("cell", val=m))))
        return out

    # ---- operators
    def expr_BoolOp(self, st, n):
        is_and = isinstance(n.op, ast.And)
        results = []

        def go(s, i):
            for s1, v in self.eval(s, n.values[i]):
                if isinstance(v, Exc) or i == len(n.values) - 1:
                    results.append((s1, v))
                    continue
                c = ops.truth(s1, v)
                t, f = self.split(s1, c)
                if is_and:
                    if t:
                        go(t, i + 1)
                    if f:
                        results.append((f, v))
                else:
                    if t:
                        results.append((t, v))
                    if f:
                        go(f, i + 1)
        # fast path: all operands pure booleans -> no path split
        try:
            vals = []
            for x in n.values:
                if not _simple(x):
                    raise Unsupported("x")
                v = self.eval_pure(st, x)
                if not isinstance(v, VBool):
                    raise Unsupported("x")
                vals.append(v.t)
            return [(st, VBool(z3.And(vals) if is_and else z3.Or(vals)))]
        except Unsupported:
            pass
        go(st, 0)
        return results

    def classattr_item(self, st, c, k, node):
        """<Class>.<table>[key] for a class-level dict literal with constant keys, read from the real ast.
        Values: constants, or calls of a class-level namedtuple with constant arguments (-> a tuple)."""
        cname, attr = c.payload
        d = self.index.class_by_name[cname].class_assigns[attr]
        kk = ops.deref(st, k)
        ck = concrete_str(kk.t) if isinstance(kk, VStr) else (concrete_int(kk.t) if isinstance(kk, VInt) else None)
        if not isinstance(d, ast.Dict) or ck is None:
            raise Unsupported(f"subscript of class attribute {cname}.{attr} (needs a dict literal and a concrete key)")
        for kn, vn in zip(d.keys, d.values):
            if isinstance(kn, ast.Constant) and kn.value == ck:
                if isinstance(vn, ast.Constant):
                    return self.eval(st, vn)
                if isinstance(vn, ast.Call) and all(isinstance(x, ast.Constant) for x in vn.args) and not vn.keywords:
                    mk = self.index.class_by_name[cname].class_assigns.get(getattr(vn.func, "id", None))
                    if isinstance(mk, ast.Call) and ast.unparse(mk.func).endswith("namedtuple"):
                        fields = [e.value for e in mk.args[1].elts] if isinstance(mk.args[1], (ast.List, ast.Tuple)) else None
                        items = []
                        for x in vn.args:
                            (_, v), = self.eval(st, x)
                            items.append(v)
                        t = VTuple(items)
                        t.field_names = fields
                        return [(st, t)]
                raise Unsupported(f"value of {cname}.{attr}[{ck!r}] is not a constant or a namedtuple of constants")
        return [(st, Exc("KeyError", self.line(node)))]

    def expr_UnaryOp(self, st, n):
        out = []
        for s, v in self.eval(st, n.operand):
            if isinstance(v, Exc):
                out.append((s, v))
                continue
            if isinstance(n.op, ast.Not):
                out.append((s, VBool(z3.Not(ops.truth(s, v)))))
            elif isinstance(n.op, ast.USub):
                v = ops.deref(s, v)
                if isinstance(v, VFloat):
                    out.append((s, VFloat(z3.If(v.is_nan(), v.t, FLOAT.sort().Fin(-v.val())))))
                else:
                    out.append((s, VInt(-ops.to_int(v).t)))
            elif isinstance(n.op, ast.UAdd):
                out.append((s, v))
            elif isinstance(n.op, ast.Invert) and isinstance(ops.deref(s, v), (VInt, VBool)):
                out.append((s, VInt(-ops.to_int(ops.deref(s, v)).t - 1)))      # ~x == -x - 1 (A2b)
            else:
                raise Unsupported("unary ~")
        return out

    def expr_BinOp(self, st, n):
        op = _BINOPS[type(n.op)]
        out = []
        for s, vals in self.eval_all(st, [n.left, n.right]):
            if isinstance(vals, Exc):
                out.append((s, vals))
                continue
            a, b = vals
            for s2, v in self.guarded(s, ops.binop(s, op, a, b, self.line(n))):
                if isinstance(v, V) and not isinstance(v, (VInt, VBool, VFloat, VStr)) and \
                        isinstance(v, (VSeq, VSet, VEmptySeq, VEmptySet)) and \
                        (ops.is_cell(s2, a) or ops.is_cell(s2, b)):
                    v = s2.alloc(HeapObj("cell", val=v))     # list + list -> new list object
                out.append((s2, v))
        return out

    def expr_Compare(self, st, n):
        out = []
        for s, vals in self.eval_all(st, [n.left] + list(n.comparators)):
            if isinstance(vals, Exc):
                out.append((s, vals))
                continue
            cs = []
            for i, o in enumerate(n.ops):
                cs.append(ops.compare(s, _CMPOPS[type(o)], vals[i], vals[i + 1]))
            out.append((s, VBool(z3.And(cs) if len(cs) > 1 else cs[0])))
        return out

    def expr_IfExp(self, st, n):
        out = []
        for s, c in self.eval(st, n.test):
            if isinstance(c, Exc):
                out.append((s, c))
                continue
            t, f = self.split(s, ops.truth(s, c))
            if t:
                out.extend(self.eval(t, n.body))
            if f:
                out.extend(self.eval(f, n.orelse))
        return out

    def expr_JoinedStr(self, st, n):
        parts = []
        res = [(st, [])]
        for v in n.values:
            nxt = []
            for s, acc in res:
                if isinstance(acc, Exc):
                    nxt.append((s, acc))
                    continue
                if isinstance(v, ast.Constant):
                    nxt.append((s, acc + [VStr(v.value)]))
                else:
                    for s2, x in self.eval(s, v.value):
                        if isinstance(x, Exc):
                            nxt.append((s2, x))
                        else:
                            nxt.append((s2, acc + [self.fmt(s2, x, v)]))
            res = nxt
        out = []
        for s, acc in res:
            if isinstance(acc, Exc):
                out.append((s, acc))
                continue
            t = acc[0].t if acc else z3.StringVal("")
            for x in acc[1:]:
                t = z3.Concat(t, x.t)
            out.append((s, VStr(t)))
        return out

    def fmt(self, st, x, node):
        x = ops.deref(st, x)
        if isinstance(x, VStr) and node.format_spec is None and node.conversion in (-1, 115):
            return x
        if isinstance(x, VInt) and node.format_spec is None:
            return VStr(z3.IntToStr(x.t)) if False else VStr(_fmt_fn("int", z3.IntSort())(x.t))
        if hasattr(x, "t"):
            spec = ast.dump(node.format_spec) if node.format_spec is not None else ""
            return VStr(_fmt_fn(f"{x.t.sort()}|{spec}|{node.conversion}", x.t.sort())(x.t))
        raise Unsupported(f"f-string formatting of {x!r}")

    # ---- attribute / subscript
    def expr_Attribute(self, st, n):
        out = []
        for s, o in self.eval(st, n.value):
            if isinstance(o, Exc):
                out.append((s, o))
                continue
            out.extend(self.get_attr(s, o, n.attr, n))
        return out

    def get_attr(self, st, o, attr, node):
        if isinstance(o, VObj):
            ho = st.heap[o.oid]
            if ho.k == "inst":
                if attr in ho.fields:
                    return [(st, ho.fields[attr])]
                if ho.cls and ho.cls != "$dict":
                    fi = self.index.find_method(ho.cls, attr)
                    if fi is not None:
                        if fi.is_property:
                            return self.call_function(st, fi, [o], {}, node)
                        if fi.is_static:
                            return [(st, VFunc("func", fi))]
                        return [(st, VFunc("method", fi, o))]
                    ci = self.index.class_by_name.get(ho.cls)
                    for c in self.index.mro(ho.cls):
                        cc = self.index.class_by_name.get(c)
                        if cc and attr in cc.class_assigns:
                            return [(st, VFunc("classattr", (c, attr)))]
                return [(st, Exc("AttributeError", self.line(node), attr))]
            return [(st, VFunc("bound", attr, o))]
        if isinstance(o, VRefT):
            return self.symref_get(st, o, attr, node)
        if isinstance(o, VOpt) and isinstance(o.kind.inner, Abstract):
            t, f = self.split(st, z3.Not(o.is_none()))
            out = []
            if t:
                out.extend(self.get_attr(t, o.get(), attr, node))
            if f:
                out.append((f, Exc("AttributeError", self.line(node), attr)))
            return out
        if isinstance(o, VAtom) and o.kind.name == "Path" and attr in ("suffix", "name"):
            from . import fsmodel
            if attr == "suffix":
                return [(st, VStr(fsmodel.suffix(o.t)))]
            return [(st, VAtom(fsmodel.PATH, fsmodel.basename(o.t)))]
        if isinstance(o, VAtom) and isinstance(o.kind, Abstract):
            if attr in o.kind.attrs:
                return [(st, o.kind.attr(o, attr))]
            if attr in o.kind.methods:
                return [(st, VFunc("amethod", (o.kind, attr), o))]
            return [(st, Exc("AttributeError", self.line(node), attr))]
        if isinstance(o, VFunc):
            if o.what == "module" and o.payload == "logging" and attr in ("DEBUG", "INFO", "WARNING", "ERROR", "CRITICAL"):
                return [(st, VInt({"DEBUG": 10, "INFO": 20, "WARNING": 30, "ERROR": 40, "CRITICAL": 50}[attr]))]
            if o.what == "module":
                dotted = f"{o.payload}.{attr}"
                if dotted.startswith("codebasin"):
                    tm, leaf = dotted.rsplit(".", 1)
                    f2 = self.index.funcs.get(f"{tm}:{leaf}")
                    if f2 is not None:
                        return [(st, VFunc("func", f2))]
                    if leaf in self.index.class_by_name:
                        return [(st, VFunc("class", leaf))]
                return [(st, VFunc("module", dotted))]
            if o.what == "class":
                fi = self.index.find_method(o.payload, attr)
                if fi is not None:
                    if fi.is_classmethod:
                        return [(st, VFunc("method", fi, o))]
                    return [(st, VFunc("func", fi))]
                for c in self.index.mro(o.payload):
                    cc = self.index.class_by_name.get(c)
                    if cc and attr in cc.class_assigns:
                        val = cc.class_assigns[attr]
                        if isinstance(val, ast.Constant):
                            if "Enum" in cc.bases:
                                # enum members are modelled by (class, value): distinct ints per class
                                return [(st, VInt(val.value))]
                            return self.eval(st, val)
                        return [(st, VFunc("classattr", (c, attr)))]
                inner = self.index.class_by_name.get(attr)
                if inner is not None:
                    return [(st, VFunc("class", attr))]
                raise Unsupported(f"class attribute {o.payload}.{attr}")
            if o.what == "builtin":
                return [(st, VFunc("module", f"{o.payload}.{attr}"))]
        # methods on plain values
        return [(st, VFunc("bound", attr, o))]

    def eval_index(self, st, sl):
        if isinstance(sl, ast.Slice):
            parts = [sl.lower, sl.upper, sl.step]
            res = [(st, [])]
            for p in parts:
                nxt = []
                for s, acc in res:
                    if isinstance(acc, Exc):
                        nxt.append((s, acc))
                    elif p is None:
                        nxt.append((s, acc + [None]))
                    else:
                        for s2, v in self.eval(s, p):
                            nxt.append((s2, v if isinstance(v, Exc) else acc + [v]))
                res = nxt
            return [(s, acc if isinstance(acc, Exc) else VTuple.__new__(_SliceV)._init(acc)) for s, acc in res]
        return self.eval(st, sl)

    def expr_Subscript(self, st, n):
        out = []
        for s, c in self.eval(st, n.value):
            if isinstance(c, Exc):
                out.append((s, c))
                continue
            for s2, k in self.eval_index(s, n.slice):
                if isinstance(k, Exc):
                    out.append((s2, k))
                    continue
                out.extend(self.get_item(s2, c, k, n))
        return out

    def get_item(self, st, c, k, node):
        if isinstance(c, VObj) and st.heap[c.oid].k == "inst":
            ho = st.heap[c.oid]
            kk = concrete_str(ops.deref(st, k).t) if isinstance(ops.deref(st, k), VStr) else None
            if ho.cls == "$dict" and kk is not None:
                if kk in ho.fields:
                    return [(st, ho.fields[kk])]
                return [(st, Exc("KeyError", self.line(node)))]
            raise Unsupported(f"subscript on instance of {ho.cls}")
        if isinstance(c, VAtom) and isinstance(c.kind, Abstract):
            kk = ops.deref(st, k)
            ck = concrete_str(kk.t) if isinstance(kk, VStr) else None
            if ck is not None and ("item:" + ck) in c.kind.attrs:
                return [(st, c.kind.attr(c, "item:" + ck))]
            if "item:*" in c.kind.attrs:
                kind, keykind = c.kind.attrs["item:*"]
                f = z3.Function(f"{c.kind.name}.item", c.kind.sort(), keykind.sort(), kind.sort())
                return [(st, kind.wrap(f(c.t, ops.coerce(st, kk, keykind).t)))]
            raise Unsupported(f"subscript {ck!r} on abstract {c.kind.name} not declared by the contract")
        if isinstance(c, VFunc) and c.what == "classattr":
            return self.classattr_item(st, c, k, node)
        cv = ops.deref(st, c)
        if isinstance(cv, VOpt):
            t, f = self.split(st, z3.Not(cv.is_none()))
            out = []
            if f:
                out.append((f, Exc("TypeError", self.line(node), "'NoneType' object is not subscriptable")))
            if t:
                out.extend(self.get_item(t, cv.get(), k, node))
            return out
        if isinstance(k, _SliceV):
            return self.get_slice(st, cv, k, node)
        k = ops.deref(st, k)
        if isinstance(cv, VTotalMap):
            return [(st, cv.get(ops.coerce(st, k, cv.key)))]
        if isinstance(cv, VMap) and cv.default is not None:
            kk = ops.coerce(st, k, cv.key)
            val = cv.val.wrap(z3.If(cv.has(kk), cv.get(kk).t, cv.default.t))
            if ops.is_cell(st, c):
                st.heap[c.oid].val = cv.put(kk, val)
            return [(st, val)]
        if isinstance(cv, VMap):
            kk = ops.coerce(st, k, cv.key)
            return self.guarded(st, [(cv.has(kk), cv.get(kk)),
                                     (z3.Not(cv.has(kk)), Exc("KeyError", self.line(node)))])
        if isinstance(cv, VEmptyMap):
            return [(st, Exc("KeyError", self.line(node)))]
        if isinstance(cv, (VSeq, VTuple)) and getattr(cv, "items", None) is not None:
            i = concrete_int(k.t)
            n = len(cv.items)
            if i is not None:
                if -n <= i < n:
                    return [(st, cv.items[i])]
                return [(st, Exc("IndexError", self.line(node)))]
            if isinstance(cv, VTuple):
                raise Unsupported("symbolic index into a heterogeneous tuple")
        if isinstance(cv, VEmptySeq):
            return [(st, Exc("IndexError", self.line(node)))]
        if isinstance(cv, VSeq):
            n = cv.length()
            idx = z3.If(k.t < 0, k.t + n, k.t)
            ok = z3.And(idx >= 0, idx < n)
            return self.guarded(st, [(ok, cv.at(idx)), (z3.Not(ok), Exc("IndexError", self.line(node)))])
        if isinstance(cv, VStr):
            n = z3.Length(cv.t)
            idx = z3.If(k.t < 0, k.t + n, k.t)
            ok = z3.And(idx >= 0, idx < n)
            return self.guarded(st, [(ok, VStr(z3.SubString(cv.t, idx, 1))),
                                     (z3.Not(ok), Exc("IndexError", self.line(node)))])
        raise Unsupported(f"subscript on {cv!r} at line {self.line(node)}")

    def get_slice(self, st, cv, sl, node):
        lo, hi, step = sl.items
        if step is not None:
            raise Unsupported("slice step")
        if isinstance(cv, VEmptySeq):
            return [(st, st.alloc(HeapObj("cell", val=cv)))]
        if isinstance(cv, VSeq) and hi is None and lo is not None:
            clo = concrete_int(ops.deref(st, lo).t)
            if clo is not None and clo >= 0:
                return [(st, st.alloc(HeapObj("cell", val=cv.tail_from(clo))))]
        if isinstance(cv, (VSeq, VStr)):
            n = cv.length() if isinstance(cv, VSeq) else z3.Length(cv.t)

            def norm(x, dflt):
                if x is None:
                    return dflt
                t = ops.deref(st, x).t
                t = z3.If(t < 0, t + n, t)
                return z3.If(t < 0, 0, z3.If(t > n, n, t))
            a, b = norm(lo, z3.IntVal(0)), norm(hi, n)
            ln = z3.If(b > a, b - a, 0)
            if isinstance(cv, VStr):
                return [(st, VStr(z3.SubString(cv.t, a, ln)))]
            items = None
            if cv.items is not None:
                ca, cb = concrete_int(a), concrete_int(b)
                if ca is not None and cb is not None:
                    items = cv.items[ca:cb] if cb > ca else []
            if items is not None:
                r = VSeq.of(cv.elem, items)
            else:
                r = cv.sub(a, ln)
            return [(st, st.alloc(HeapObj("cell", val=r)))]
        raise Unsupported(f"slice of {cv!r}")

    def expr_Yield(self, st, n):
        """`yield x` appends x to the ghost output of the generator (a set view: which
        values are produced; order and multiplicity are outside this model)"""
        out = []
        for s, v in self.eval(st, n.value):
            if isinstance(v, Exc):
                out.append((s, v))
                continue
            c = s.ghost.get("yield_cell")
            if c is None:
                raise Unsupported("yield outside a generator contract")
            cur = s.heap[c.oid].val
            x = ops.deref(s, v)
            if getattr(x, "kind", None) is not None and not isinstance(x, VObj):
                base = cur.to(x.kind) if isinstance(cur, VEmptySet) else cur
                s.heap[c.oid].val = base.add(ops.coerce(s, x, base.elem))
            elif "calls" not in s.ghost:
                raise Unsupported("yield of an object outside a call-order contract")
            if "calls" in s.ghost:                      # units that specify a call order see the yields in it
                s.ghost["calls"] = s.ghost["calls"] + (("yield", (x,)),)
            out.append((s, VNone()))
        return out

    # ---- comprehensions
    def expr_ListComp(self, st, n):
        return [(st, self.comprehension(st, n))]

    def expr_GeneratorExp(self, st, n):
        return [(st, self.comprehension(st, n))]

    def expr_SetComp(self, st, n):
        return [(st, self.comprehension(st, n))]

    def comprehension(self, st, n):
        if len(n.generators) != 1:
            raise Unsupported("nested comprehension")
        g = n.generators[0]
        if not isinstance(g.target, ast.Name):
            raise Unsupported("comprehension with tuple target")
        it = ops.deref(st, self.eval_pure(st, g.iter))
        if isinstance(it, VOpt):
            it = it.get()
        if isinstance(it, (VEmptySet, VEmptySeq)):
            return VEmptySeq()
        name = g.target.id
        saved = st.env.get(name, _MISSING)
        if isinstance(it, VComp) and it.over[0] == "mapkeys":
            it = VSet(it.over[1].key, it.over[1].dom)
        if isinstance(it, VSeq) and it.items is None and ("enum_of", it.arr.get_id()) in st.ghost:
            # a duplicate-free enumeration of a set (list(s), sorted(s)): the comprehension ranges over the set itself
            it = st.ghost[("enum_of", it.arr.get_id())]
        if isinstance(it, VSet):
            x = it.elem.fresh(self.ctx, "cx_" + name)
            dom = it.contains(x)
            over = ("set", it)
        elif isinstance(it, VSeq):
            if it.items is not None and len(it.items) <= 8:
                # concrete unrolling
                vals = []
                for item in it.items:
                    st.env[name] = item
                    if all(ops.concrete_bool(ops.truth(st, self.eval_pure(st, c))) is not False for c in g.ifs) or not g.ifs:
                        if g.ifs:
                            raise Unsupported("filtered comprehension over concrete list")
                        vals.append(self.eval_pure(st, n.elt))
                _restore(st, name, saved)
                return self.new_list(st, vals)
            i = z3.Int(self.ctx.fresh_name("ci_" + name))
            x = it.at(i)
            dom = z3.And(i >= 0, i < it.length())
            over = ("seq", it, i)
        else:
            raise Unsupported(f"comprehension over {it!r}")
        cs = st.fork()
        cs.assume(dom)
        base = len(cs.pc)
        cs.env[name] = x
        for c in g.ifs:
            cond = ops.truth(cs, self.eval_pure(cs, c))
            dom = z3.And(dom, cond)
            cs.assume(cond)
            base = len(cs.pc)
        elem = self.eval_pure(cs, n.elt)
        comp = VComp(x, dom, elem, over)
        comp.state = cs
        comp.extra_pc = cs.pc[base:]
        comp.bound_consts = [x.t] if over[0] == "set" else [over[2]]
        return comp


class _SliceV(VTuple):
    def _init(self, items):
        self.items = items
        self.kind = None
        return self


_MISSING = object()
_fmt_fns = {}


def _fmt_fn(tag, sort):
    if tag not in _fmt_fns:
        _fmt_fns[tag] = z3.Function("fmt!" + "".join(c if c.isalnum() else "_" for c in tag)[:40] + str(len(_fmt_fns)),
                                    sort, z3.StringSort())
    return _fmt_fns[tag]


def fmt_term(t, spec="", conversion=-1):
    """the string an f-string produces for a value of a non-string sort (uninterpreted, one function per sort/spec)"""
    return _fmt_fn(f"{t.sort()}|{spec}|{conversion}", t.sort())(t)


def _restore(st, name, saved):
    if saved is _MISSING:
        st.env.pop(name, None)
    else:
        st.env[name] = saved


def _simple(x):
    """syntactically exception-free boolean-ish expression (no calls/subscripts)"""
    for sub in ast.walk(x):
        if isinstance(sub, (ast.Call, ast.Subscript, ast.BinOp, ast.IfExp, ast.ListComp, ast.GeneratorExp)):
            return False
    return True
