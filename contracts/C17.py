"""
Contracts for C17 -- free-form Fortran: comment / continuation handling and
preprocessor conditionals (codebasin/file_source.py: fortran_cleaner).

Proved: one step of fortran_cleaner.process (the body of its `while True` loop,
verified as a unit for each reachable state-stack shape) makes exactly the
transition, buffer calls, put-back and hand-over to the sentinel check that the
reference free-form scanner prescribes (table `ref_step`, trusted spec A9), for
every character; the directives-only pass of the C cleaner (shared with C05)
passes non-directive text through unchanged.  The composition over whole files
(fortran_file_source) and the conditional selection in Fortran files are bounded
stand-ins (native/C17.py).
"""
import z3

from pyvc.contract import contract, lemma, LoopSpec, ObjSpec, CellOf
from pyvc.values import *  # noqa
from pyvc.state import Exc, HeapObj
from pyvc import ops
import contracts.C05 as C05
from contracts.C05 import OBUF

TOP, ESC, VC, DQ, SQ, CFS = "TOPLEVEL", "ESCAPING", "VERIFY_CONTINUE", "DOUBLE_QUOTATION", "SINGLE_QUOTATION", "CONTINUING_FROM_SOL"
SHAPES = {"top": [TOP], "esc": [TOP, ESC], "amp": [TOP, VC], "dq": [TOP, DQ], "dq-esc": [TOP, DQ, ESC], "dq-amp": [TOP, DQ, VC],
          "sq": [TOP, SQ], "sq-esc": [TOP, SQ, ESC], "sq-amp": [TOP, SQ, VC], "cont": [TOP, CFS], "dq-cont": [TOP, DQ, CFS],
          "sq-cont": [TOP, SQ, CFS]}


def _next(ex, st, recv, pos, kw, node):
    c = STR.fresh(ex.ctx, "char")
    st.assume(z3.Length(c.t) == 1)
    st.ghost["char"] = c
    s2 = st.fork()
    return [(st, c), (s2, Exc("StopIteration", node.lineno))]


def _putback(ex, st, recv, pos, kw, node):
    st.ghost["putback"] = st.ghost.get("putback", ()) + (ops.deref(st, pos[0]),)
    return [(st, VNone())]


ITER = Abstract("IterKeep1F", methods={"__next__": _next, "putback": _putback})


def _builtin_next(ex, st, pos, kw, node, star):
    it = pos[0]
    if isinstance(it, VAtom) and isinstance(it.kind, Abstract) and "__next__" in it.kind.methods:
        return it.kind.methods["__next__"](ex, st, it, [], {}, node)
    from pyvc.state import Unsupported
    raise Unsupported("next() of an unmodelled iterator")


from pyvc.stubs import STUBS    # noqa: E402
STUBS["next"] = _builtin_next


def _dir_check(ex, st, env, node):
    st.ghost["dir_check"] = st.ghost.get("dir_check", 0) + 1
    return [(st, VNone())]


def ref_step(shape, cls):
    """reference free-form scanner, one character.
    -> (new shape, emits, putback?, sentinel-check-and-stop?, amp-buffer: 'push'|'flush'|'keep')"""
    if shape == "top":
        if cls == "bs":
            return "esc", [("nonspace", "c")], False, False, "keep"
        if cls == "bang":
            return "top", [], False, True, "keep"            # comment (or sentinel): rest of the line goes to dir_check
        if cls == "amp":
            return "amp", [], False, False, "push"           # possible continuation marker
        if cls == "dq":
            return "dq", [("nonspace", "c")], False, False, "keep"
        if cls == "sq":
            return "sq", [("nonspace", "c")], False, False, "keep"
        return "top", [("char", "c")], False, False, "keep"
    if shape in ("esc", "dq-esc", "sq-esc"):
        return {"esc": "top", "dq-esc": "dq", "sq-esc": "sq"}[shape], [("nonspace", "c")], False, False, "keep"
    if shape in ("dq", "sq"):
        q = "dq" if shape == "dq" else "sq"
        if cls == "bs":
            return shape + "-esc", [("nonspace", "c")], False, False, "keep"
        if cls == q:
            return "top", [("nonspace", "c")], False, False, "keep"
        if cls == "amp":
            return shape + "-amp", [], False, False, "push"
        return shape, [("nonspace", "c")], False, False, "keep"     # ! & // inside a literal are text
    if shape in ("amp", "dq-amp", "sq-amp"):
        below = {"amp": "top", "dq-amp": "dq", "sq-amp": "sq"}[shape]
        if cls == "bang" and shape == "amp":
            return shape, [], False, True, "keep"            # `& ! comment`: the line continues
        if cls == "space":
            return shape, [], False, False, "push"
        return below, "FLUSH", True, False, "flush"          # the & was text after all: emit what was held back, re-read c
    if shape in ("cont", "dq-cont", "sq-cont"):
        below = {"cont": "top", "dq-cont": "dq", "sq-cont": "sq"}[shape]
        if cls == "space":
            return shape, [("space", None)], False, False, "keep"
        if cls == "amp":
            return below, [], False, False, "keep"           # optional leading & of the continuation line
        if cls == "bang":
            return shape, [], False, True, "keep"            # comment line interleaved in the continued statement
        return below, [], True, False, "keep"
    raise ValueError(shape)


CLS = {"bs": "\\", "bang": "!", "amp": "&", "dq": '"', "sq": "'"}


def cls_cond(cls, char):
    from pyvc.stubs import char_class
    if cls in CLS:
        return char == z3.StringVal(CLS[cls])
    sp = char_class("isspace", char)
    others = z3.And([char != z3.StringVal(v) for v in CLS.values()])
    return z3.And(others, sp) if cls == "space" else z3.And(others, z3.Not(sp))


def _step(shape):
    key = f"codebasin.file_source:fortran_cleaner.process@loop0#{shape}"
    c = contract(key, props=["C17"])
    c.param("self", ObjSpec("fortran_cleaner", {
        "state": lambda ctx, st: st.alloc(HeapObj("cell", val=VSeq.of(STR, [VStr(x) for x in SHAPES[shape]]))),
        "outbuf": OBUF,
        # the held-back `&` (+ blanks): two arbitrary characters while verifying a continuation, empty otherwise
        "verify_continue": (lambda ctx, st: st.alloc(HeapObj("cell", val=VSeq.of(
            STR, [STR.fresh(ctx, "held0"), STR.fresh(ctx, "held1")] if shape.endswith("amp") else [])))) }))
    c.param("inbuffer", ITER)
    c.modifies = ["self"]
    c.opaque = {"codebasin.file_source:fortran_cleaner.dir_check": _dir_check}
    c.may_raise = {"StopIteration"}          # end of the line: handled by the enclosing try

    @c.ensures
    def _(A, R):
        char = R.st.ghost["char"].t
        st_cell = R.new.self.state
        items = [concrete_str(x.t) for x in st_cell.items] if st_cell.items is not None else None
        emits = R.st.ghost.get("emits", ())
        putback = R.st.ghost.get("putback", ())
        dirc = R.st.ghost.get("dir_check", 0)
        broke = R.st.ghost.get("broke", False)
        held0, held1 = A.self.verify_continue, R.new.self.verify_continue
        if isinstance(held1, VEmptySeq):
            held1 = VSeq.of(STR, [])
        out = []
        for cls in list(CLS) + ["space", "other"]:
            ns, want_emits, want_pb, want_stop, amp = ref_step(shape, cls)
            cond = cls_cond(cls, char)
            ok = items == SHAPES[ns] and ((len(putback) == 1) == want_pb) and (dirc == (1 if want_stop else 0)) and (bool(broke) == want_stop)
            extra = []
            if want_emits == "FLUSH":
                # every held-back character is emitted verbatim, in order
                ok = ok and all(k == "nonspace" for k, _ in emits) and len(emits) == len(held0.items)
                if ok:
                    extra += [a.t == h.t for (k, a), h in zip(emits, held0.items)]
                extra.append(held1.n == 0)
            else:
                ok = ok and len(emits) == len(want_emits) and all(k == wk for (k, _), (wk, _) in zip(emits, want_emits))
                if ok:
                    extra += [a.t == char for (k, a), (wk, wa) in zip(emits, want_emits) if wa == "c"]
                if amp == "push":
                    extra.append(held1.eq(held0.append(VStr(char))))
                elif amp == "keep":
                    extra.append(held1.eq(held0))
            if want_pb and len(putback) == 1:
                extra.append(putback[0].t == char)
            out.append((f"on {cls}: transition, buffer calls, put-back and sentinel hand-over are the reference scanner's",
                        z3.Implies(cond, z3.And([z3.BoolVal(bool(ok))] + extra))))
        return out
    return key


STEP_UNITS = [_step(s) for s in SHAPES]
UNITS = STEP_UNITS + [k for k in C05.STEP_UNITS if k.endswith("directives-only")] + C05.OSL_UNITS
ASSUMPTIONS = [
    "A9 the reference free-form scanner table is a trusted spec (Fortran 2018 6.3.2); backslash escapes in character literals are "
    "the code's (non-standard) and kept by the table",
    "fortran_cleaner.dir_check (sentinel recognition) is opaque here; its effect is covered by the bounded native run",
    "the held-back `&`/blank buffer (verify_continue) is concrete-length in the flush case (unrolled)",
]
NOT_COVERED = ["fixed-form Fortran (the code has no support)", "the composition over whole files and conditional selection: bounded (native/C17.py)"]
EXPLANATION = ("Per-step transition-table conformance of fortran_cleaner.process for every character and every stack shape; whole-file "
               "classification compared with a reference on all texts of <= 6/8 characters (bounded).")
