"""
Native bounded stand-in for C17: free-form Fortran line classification and
preprocessor conditionals in Fortran files.

Reference classifier (trusted spec A9, written from the Fortran 2018 free-form
rules): character context with doubled quotes; `!` starts a comment outside
character context; a comment of the form ! letters* $ ... is a compiler-directive
sentinel and is kept; a trailing `&` (optionally followed by blanks / a comment)
continues the statement, the continuation may start with `&`; blank and comment
lines between continued lines are not counted; a physical line is counted iff it
holds statement text, a sentinel comment or a # directive.
"""
import io
import itertools
import random

from codebasin import file_source

ALPHA = "a \n!$&'\""


def reference(text):
    """-> set of counted physical lines, or None if the text is outside the quantifier"""
    lines = text.split("\n")
    if lines and lines[-1] == "":
        lines.pop()
    counted = set()
    in_char = None
    continuing = False
    for no, line in enumerate(lines, start=1):
        stripped = line.strip(" \t")
        if in_char is None and not continuing and stripped.startswith("#"):
            counted.add(no)
            continue
        if stripped.startswith("#"):
            return None                  # a directive inside a continued statement: not generated
        i, n = 0, len(line)
        content = False
        cont_next = False
        if continuing:
            j = 0
            while j < n and line[j] in " \t":
                j += 1
            if j < n and line[j] == "&":
                i = j + 1
            if stripped == "" or stripped.startswith("!"):
                # blank / comment line interleaved in a continued statement (also inside a continued character context)
                if stripped.startswith("!") and is_sentinel(stripped):
                    if in_char is not None:
                        return None
                    counted.add(no)
                continue
            if in_char is not None and not (j < n and line[j] == "&"):
                return None              # a continued character context must resume with a leading &
        while i < n:
            c = line[i]
            if in_char is not None:
                if c == in_char:
                    if i + 1 < n and line[i + 1] == in_char:
                        content = True
                        i += 2
                        continue
                    in_char = None
                    content = True
                elif c == "&" and line[i + 1:].strip(" \t") == "":
                    cont_next = True
                    break
                else:
                    if not c.isspace():
                        content = True
                    elif True:
                        content = True       # blanks inside a literal are statement text
            else:
                if c in "'\"":
                    in_char = c
                    content = True
                elif c == "!":
                    if is_sentinel(line[i:]):
                        content = True
                    break
                elif c == "&":
                    rest = line[i + 1:].strip(" \t")
                    if rest == "" or rest.startswith("!"):
                        cont_next = True
                        if rest.startswith("!") and is_sentinel(rest):
                            return None      # sentinel after a continuation marker: not generated
                        break
                    return None              # & in the middle of a statement outside character context: ill-formed
                elif not c.isspace():
                    content = True
            i += 1
        if in_char is not None and not cont_next:
            return None                      # unterminated character literal
        if content:
            counted.add(no)
        continuing = cont_next
    if continuing or in_char is not None:
        return None
    return counted


def is_sentinel(s):
    """! letters* $ ..."""
    assert s[0] == "!"
    k = 1
    while k < len(s) and s[k].isalpha():
        k += 1
    return k < len(s) and s[k] == "$"


def real(text):
    gen = file_source.fortran_file_source(io.StringIO(text))
    out = []
    try:
        while True:
            li = next(gen)
            out.append((li.category, list(li.lines)))
    except StopIteration:
        pass
    return [ln for _, ls in out for ln in ls], out


TOKENS = ["a", "x = 1", " ", "\n", "!c", "!$omp p", "!dir$ v", "&", " &\n", "&\n  &", "'s'", "'it''s'", '"q"', "'a!b'", "'a&b'",
          '"x//y"', "call f( &\n", " y)", "! &", "#if A\n", "#endif\n", "#define X\n", "\n\n", "!\n", "print *, 'a', & ! c\n"]


class FortranLines:
    proved = False
    role = "bounded stand-in for fortran_file_source vs the reference free-form classifier (not counted as proved)"

    def bound(self, tier):
        return ("all texts of <= 6 characters over {a, blank, newline, ! $ & ' \"} + 3000 random token-level texts" if tier == "quick"
                else "all texts of <= 8 characters over the 8-letter alphabet + 60000 random token-level texts")

    def inputs(self, tier, seed):
        for n in range(0, (6 if tier == "quick" else 8) + 1):
            for t in itertools.product(ALPHA, repeat=n):
                yield {"text": "".join(t)}
        rng = random.Random(seed)
        for _ in range(3000 if tier == "quick" else 60000):
            yield {"text": "".join(rng.choice(TOKENS) for _ in range(rng.randint(1, 10)))}

    def nontrivial(self, inp):
        return getattr(self, "_valid", False)

    def check(self, inp):
        self._valid = False
        want = reference(inp["text"])
        if want is None:
            return None
        self._valid = True
        try:
            got, out = real(inp["text"])
        except Exception as e:      # noqa: BLE001
            return {"expected": sorted(want), "observed": f"raised {type(e).__name__}: {e}", "klass": "fortran:raises"}
        if len(got) != len(set(got)):
            return {"expected": "no line twice", "observed": got, "klass": "fortran:counted-twice"}
        if set(got) != want:
            return {"expected": sorted(want), "observed": sorted(got), "klass": "fortran:wrong-set"}
        return None


class NestedIncludes:
    """a header reached from a free-form Fortran file through ANOTHER header is scanned as Fortran whatever the two
    headers are called ("includes in Fortran files select lines exactly as they do in C files": the language goes with
    the translation unit, not with the header's extension)"""
    proved = False
    role = "bounded check: headers two levels below a .F90 file, real finder vs the reference free-form classifier"
    EXTS = [".h", ".inc", ".hpp", ".fh", ".F90", ".c"]

    def bound(self, tier):
        n = 40 if tier == "quick" else 600
        return f"{n} random token-level Fortran texts without directives, in a header included by a header included by a .F90 file; {len(self.EXTS)} extensions for either header"

    def inputs(self, tier, seed):
        rng = random.Random(seed + 17)
        toks = [t for t in TOKENS if "#" not in t]
        for _ in range(40 if tier == "quick" else 600):
            yield {"text": "".join(rng.choice(toks) for _ in range(rng.randint(2, 10))) + "\n",
                   "mid": rng.choice(self.EXTS), "inner": rng.choice(self.EXTS)}

    def nontrivial(self, inp):
        return getattr(self, "_valid", False)

    def check(self, inp):
        import os
        import shutil
        import tempfile
        from codebasin import CodeBase, finder
        from codebasin.preprocessor import CodeNode
        self._valid = False
        want = reference(inp["text"])
        if want is None:
            return None
        try:
            real(inp["text"])
        except Exception:       # noqa: BLE001  (texts the scanner itself rejects are FortranLines' business)
            return None
        self._valid = True
        d = os.path.realpath(tempfile.mkdtemp(prefix="cbi_c17_"))
        try:
            src, mid, inner = (os.path.join(d, n) for n in ("a.F90", "mid" + inp["mid"], "inner" + inp["inner"]))
            with open(src, "w") as fh:
                fh.write(f'#include "mid{inp["mid"]}"\nx = 1\n')
            with open(mid, "w") as fh:
                fh.write(f'#include "inner{inp["inner"]}"\n')
            with open(inner, "w") as fh:
                fh.write(inp["text"])
            os.makedirs(os.path.join(d, "cb"))
            cfg = {"p": [{"file": src, "defines": [], "include_paths": [], "include_files": []}]}
            try:
                state = finder.find(d, CodeBase(os.path.join(d, "cb")), cfg)
                tree = state.get_tree(inner)
                got = sorted(ln for nd in tree.walk() if isinstance(nd, CodeNode) for ln in nd.lines)
            except Exception as e:      # noqa: BLE001
                return {"expected": sorted(want), "observed": f"raised {type(e).__name__}: {e}", "klass": "fortran:nested-include-raises"}
            if got != sorted(want):
                return {"expected": sorted(want), "observed": got, "klass": "fortran:nested-include-scanned-in-another-language"}
            return None
        finally:
            shutil.rmtree(d, ignore_errors=True)


from native.systarget import SysTarget  # noqa: E402

TARGETS = {"codebasin.file_source:fortran_cleaner.process": FortranLines(),
           # C preprocessor conditionals, definitions and includes in Fortran (.F90) files select lines exactly as in C files
           "codebasin.file_source:fortran_file_source": SysTarget("fortran-conditionals", ("fortran", "multi", "forced"),
                                                                  quick_n=150, thorough_n=3000),
           "codebasin.finder:ParserState.insert_file": NestedIncludes()}


# ---- recorded findings reported by defect hunting (all four lie outside the listed grammar or need #include) -----------
import os as _os                         # noqa: E402
from native import recorded as _R      # noqa: E402


def _x_backslash():
    got = _R.counted_lines("program p\ncharacter(20) :: s\ns = 'C:\\tmp\\'\n! don't count me\nprint *, s\nend program\n", ".f90")
    return None if got == [1, 2, 3, 5, 6] else ("[1, 2, 3, 5, 6] (Fortran has no backslash escapes; gfortran -fsyntax-only accepts the text)", got)


def _x_directive_in_c_comment():
    with _R.tree({"m.F90": "/* ...\n#define B 1\n*/\nprogram p\n#ifdef B\nprint *, 'B'\n#endif\nend program\n"}) as root:
        used = _R.used_lines(root, [{"file": _os.path.join(root, "m.F90"), "defines": [], "include_paths": [], "include_files": []}])
    return None if 6 not in used.get("m.F90", []) else ("line 6 unused: the #define sits inside a /* */ comment (gfortran -cpp -E)", used)


def _x_quote_state():
    txt = "#ifdef A\nmsg = 'version A &\n#else\nmsg = 'version B &\n#endif\n&of the code'\n! a comment\nprint *, msg\n! it's done\n"
    got = _R.counted_lines(txt, ".F90")
    return None if 7 not in got and 9 not in got else ("comment lines 7 and 9 are not counted", got)


def _x_fragment():
    from codebasin import finder, platform
    with _R.tree({"m.F90": "subroutine s(a, &\n#include \"args.inc\"\n     z)\nend subroutine\n", "args.inc": "     b, c, &\n"}) as root:
        st = finder.ParserState(False)
        st.insert_file(_os.path.join(root, "m.F90"))
        st.associate(_os.path.join(root, "m.F90"), platform.Platform("P", root))
    return None


TARGETS["codebasin.file_source:fortran_file_source#recorded-findings"] = _R.Exhibits([
    ("fortran:backslash-in-a-character-literal-taken-for-an-escape", "s = 'C:\\tmp\\' followed by a comment line", _x_backslash),
    ("fortran:directive-inside-a-c-comment-is-executed", "/* ... / #define B 1 / */ in a .F90 file", _x_directive_in_c_comment),
    ("fortran:quote-state-survives-the-end-of-a-line", "a literal continued in both arms of #ifdef/#else", _x_quote_state),
    ("fortran:included-fragment-ending-in-a-continuation-aborts", "#include \"args.inc\" where args.inc is `b, c, &`", _x_fragment),
])
