"""
Contracts for C01 -- conditional inclusion.

Under contract here: the macro table of codebasin/platform.py and the visitor
closure `associator` of ParserState.associate (branch stack discipline,
attribution before every early return, exactly one branch of a chain).  The
`#elif`-not-evaluated-after-a-taken-branch clause is shared with C02.
"""
import ast
import z3

from pyvc.contract import contract, lemma, LoopSpec, ObjSpec, CellOf
from pyvc.values import *  # noqa
from pyvc.state import Exc
from pyvc import bigop, ops
from pyvc.fsmodel import PATH
from pyvc.speclib import P

IDENT = Atom("Ident")
MACRO = Atom("Macro")
OMACRO = Opt(MACRO)


# --------------------------------------------------------------- macro table
PLAT = ObjSpec("Platform", {"_definitions": CellOf(MapOf(IDENT, MACRO))})


def _same_elsewhere(old, new, ident):
    k = z3.Const("mt!k", IDENT.sort())
    return z3.ForAll([k], z3.Implies(k != ident, z3.And(old.dom[k] == new.dom[k],
                                                        z3.Implies(old.dom[k], old.valarr[k] == new.valarr[k]))))


d = contract("codebasin.platform:Platform.define", props=["C01", "C03"])
d.param("self", PLAT).param("identifier", IDENT).param("macro", MACRO)
d.modifies = ["self._definitions"]


@d.ensures
def _(A, R):
    old, new, i = A.self._definitions, R.new.self._definitions, A.identifier.t
    return [("defined-afterwards", new.dom[i]),
            ("first-definition-wins", new.valarr[i] == z3.If(old.dom[i], old.valarr[i], A.macro.t)),
            ("other-macros-untouched", _same_elsewhere(old, new, i))]


u = contract("codebasin.platform:Platform.undefine", props=["C01", "C03"])
u.param("self", PLAT).param("identifier", IDENT)
u.modifies = ["self._definitions"]


@u.ensures
def _(A, R):
    old, new, i = A.self._definitions, R.new.self._definitions, A.identifier.t
    return [("undefined-afterwards", z3.Not(new.dom[i])),
            ("other-macros-untouched", _same_elsewhere(old, new, i))]


q = contract("codebasin.platform:Platform.is_defined", props=["C01", "C02"])
q.param("self", PLAT).param("identifier", IDENT)


@q.ensures
def _(A, R):
    i = A.identifier.t
    return [("'1'-iff-defined", R.result.t == z3.If(A.self._definitions.dom[i], z3.StringVal("1"), z3.StringVal("0")))]


g = contract("codebasin.platform:Platform.get_macro", props=["C01", "C03"])
g.param("self", PLAT).param("identifier", IDENT)


@g.ensures
def _(A, R):
    i = A.identifier.t
    m = A.self._definitions
    r = ops.coerce(R.st, R.raw_result, OMACRO)
    return [("macro-iff-defined", r.t == z3.If(m.dom[i], OMACRO.sort().some(m.valarr[i]), OMACRO.sort().none))]


# --------------------------------------------------------------- associator
def _evaluate(ex, st, recv, pos, kw, node):
    """node.evaluate_for_platform(**kwargs): abstracted as an arbitrary truth
    value; each call is counted in the ghost counter `evals` together with the
    keyword arguments it received."""
    st.ghost["evals"] = st.ghost.get("evals", 0) + 1
    st.ghost["eval_kw"] = dict(kw)
    if pos:
        return [(st, Exc("TypeError", node.lineno))]
    r = BOOL.fresh(ex.ctx, "active")
    st.ghost["active"] = r
    return [(st, r)]


NODE = Abstract("Node", methods={
    "is_start_node": ("pure", BOOL), "is_cont_node": ("pure", BOOL), "is_end_node": ("pure", BOOL),
    "evaluate_for_platform": _evaluate})
PLATOBJ = Abstract("PlatformObj", attrs={"name": P})
ASSOC = DefaultMapOf(NODE, SetOf(P), VSet.empty(P))
STATE = ObjSpec("ParserState", {"_path_cache": CellOf(MapOf(PATH, PATH))})

a = contract("codebasin.finder:ParserState.associate.<locals>.associator", props=["C01", "C02"])
a.param("node", NODE)
a.free = [("association", CellOf(ASSOC)), ("platform", PLATOBJ), ("filename", PATH),
          ("self", STATE), ("branch_taken", CellOf(SeqOf(BOOL)))]
a.modifies = ["association", "branch_taken", "self._path_cache"]

NEXT, NEXT_SIBLING = 0, 1      # Visit enum values (read from the class body by the engine)


def _kinds(A):
    n = A.node.t
    s, c, e = (NODE.method_fn(m)(n) for m in ("is_start_node", "is_cont_node", "is_end_node"))
    return s, c, e


@a.requires
def _(A):
    s, c, e = _kinds(A)
    bt = A.branch_taken
    return [("node-has-at-most-one-role", z3.And(z3.Not(z3.And(s, c)), z3.Not(z3.And(s, e)), z3.Not(z3.And(c, e)))),
            ("well-nested: #elif/#else/#endif only inside an open chain",
             z3.Implies(z3.Or(c, e), bt.n > 0))]


@a.ensures
def _(A, R):
    s, c, e = _kinds(A)
    old, new = A.branch_taken, R.new.branch_taken
    n = old.n
    top = old.arr[n - 1]

    evals = R.st.ghost.get("evals", 0)
    active = R.st.ghost.get("active")
    act = active.t if active is not None else z3.BoolVal(False)
    actv = VBool(act)
    popped = old.sub(z3.IntVal(0), n - 1)
    assoc0, assoc1 = A.association, R.new.association
    k = z3.Const("as!k", NODE.sort())
    x = z3.Const("as!x", P.sort())
    nd = A.node.t
    pname = PLATOBJ.attr(A.platform, "name").t
    old_set = z3.If(assoc0.dom[nd], assoc0.valarr[nd], z3.K(P.sort(), z3.BoolVal(False)))
    skipped = z3.And(c, top)
    out = [
        ("directive-attributed-even-when-skipped",
         z3.ForAll([x], assoc1.valarr[nd][x] == z3.Or(old_set[x], x == pname))),
        ("other-nodes-attribution-untouched",
         z3.ForAll([k], z3.Implies(z3.And(k != nd, assoc0.dom[k]), z3.And(assoc1.dom[k], assoc1.valarr[k] == assoc0.valarr[k])))),
        ("#elif/#else-after-taken-branch-is-not-evaluated", z3.Implies(skipped, z3.BoolVal(evals == 0))),
        ("evaluated-exactly-once-otherwise", z3.Implies(z3.Not(skipped), z3.BoolVal(evals == 1))),
        ("skipped-branch-not-entered", z3.Implies(skipped, z3.And(R.result.t == NEXT_SIBLING, new.eq(old)))),
        ("start-node-pushes-its-condition",
         z3.Implies(s, z3.And(new.eq(old.append(actv)), (R.result.t == NEXT) == act))),
        ("untaken-chain-continues-with-this-branch",
         z3.Implies(z3.And(c, z3.Not(top)),
                    z3.And(new.eq(popped.append(actv)), (R.result.t == NEXT) == act))),
        ("end-node-pops", z3.Implies(e, new.eq(popped))),
        ("other-nodes-leave-the-stack", z3.Implies(z3.Not(z3.Or(s, c, e)), new.eq(old))),
        ("descend-iff-active", z3.Implies(z3.Not(skipped), (R.result.t == NEXT) == act)),
    ]
    # the platform object handed to the node is the visitor's own (macro state flows in and out)
    kw = R.st.ghost.get("eval_kw")
    if kw is not None:
        same_platform = "platform" in kw and isinstance(kw["platform"], VAtom) and kw["platform"].t.eq(A.platform.t)
        same_state = "state" in kw and isinstance(kw["state"], VObj) and kw["state"].oid == A.raw("self").oid
        out.append(("node-evaluated-with-this-platform-and-state", z3.BoolVal(bool(same_platform and same_state))))
    return out


# ------------------------------------------------- one level of the pruned preorder traversal
# Node.visit(visitor): the visitor sees this node first; unless it answers NEXT_SIBLING every child is visited, in list
# order, with the same visitor, and nothing else happens.  The recursive calls are opaque (recursion hypothesis); the
# statement is about the call sequence (ghost trace), for any number of children.
from pyvc import trace as T                                    # noqa: E402
from pyvc.contract import LoopSpec                             # noqa: E402
from pyvc.stubs import STUBS as _STUBS                          # noqa: E402

VISITOR, CHILDVISIT, WALKSELF, WALKCHILD = 1, 2, 3, 4
SELF_ID = z3.Const("visited_node_id", T.OBJ.sort())
jv_ = z3.Int("vis!j")


def _child_visit(ex, st, recv, pos, kw, node):
    ok = len(pos) == 1 and isinstance(pos[0], VFunc) and pos[0].payload == "$visitor"
    T.emit(st, T.mk(CHILDVISIT, obj=recv.t, flag=z3.BoolVal(bool(ok))))       # flag: called with the SAME visitor
    return [(st, VNone())]


def _child_walk(ex, st, recv, pos, kw, node):
    from pyvc.fsmodel import VHandle
    return [(st, VHandle("childwalk", recv))]


CHILD = Abstract("Obj", methods={"visit": _child_visit, "walk": _child_walk})


def _visitor_stub(ex, st, pos, kw, node, star):
    arg = pos[0] if len(pos) == 1 else None
    same = isinstance(arg, VObj) and arg.oid == st.ghost.get("self_oid")
    T.emit(st, T.mk(VISITOR, obj=SELF_ID, flag=z3.BoolVal(bool(same))))          # flag: called on this very node
    r = INT.fresh(ex.ctx, "visit_answer")
    st.ghost["answer"] = r
    return [(st, r)]


_STUBS["$visitor"] = _visitor_stub
NODEOBJ = ObjSpec("Node", {"children": CellOf(SeqOf(CHILD))})

nv = contract("codebasin.preprocessor:Node.visit", props=["C01", "C08"])
nv.param("self", NODEOBJ).param("visitor", VFunc("builtin", "$visitor"))


def _nv_setup(ctx, st):
    T.init_symbolic(ctx, st)
    st.ghost["trace0"] = T.value(st)
    st.ghost["self_oid"] = st.env["self"].oid


nv.setup = _nv_setup


def _visit_shape(old, Tr, children, upto):
    ev = lambda t, i: t.arr[i]         # noqa: E731
    return [("earlier-trace-untouched", z3.ForAll([jv_], z3.Implies(z3.And(0 <= jv_, jv_ < old.n), ev(Tr, jv_) == ev(old, jv_)))),
            ("the-visitor-sees-this-node-first", ev(Tr, old.n) == T.mk(VISITOR, obj=SELF_ID, flag=z3.BoolVal(True))),
            ("children-visited-in-list-order-with-the-same-visitor",
             z3.ForAll([jv_], z3.Implies(z3.And(0 <= jv_, jv_ < upto),
                                         ev(Tr, old.n + 1 + jv_) == T.mk(CHILDVISIT, obj=children.arr[jv_], flag=z3.BoolVal(True)))))]


@nv.ensures
def _(A, R):
    old = R.st.ghost["trace0"]
    Tr = R.trace
    ans = R.st.ghost.get("answer")
    if ans is None:
        return [("the visitor is called", z3.BoolVal(False))]
    ch = A.self.children
    pruned = ans.t == NEXT_SIBLING
    return ([("pruned: nothing below is visited", z3.Implies(pruned, Tr.n == old.n + 1)),
             ("not pruned: exactly one visit per child", z3.Implies(z3.Not(pruned), Tr.n == old.n + 1 + ch.n))]
            + [(l, z3.Implies(z3.Not(pruned), f)) if "children" in l else (l, f) for l, f in _visit_shape(old, Tr, ch, ch.n)])


nv.loop(0, LoopSpec(lambda L: [("trace-length", L.trace.n == L.args._st.ghost["trace0"].n + 1 + L.i)]
                    + _visit_shape(L.args._st.ghost["trace0"], L.trace, L.args.self.children, L.i)))

# ------------------------------------------------- node-kind table (syntactic)
def _const_return(fi):
    """value of a `return <bool constant>` one-liner"""
    for st in fi.node.body:
        if isinstance(st, ast.Return) and isinstance(st.value, ast.Constant):
            return st.value.value
    return None


def extra_obligations(index, tier):
    """For every subclass of Node: the roles is_start/is_cont/is_end are constant
    methods and at most one is True (justifies the associator's precondition);
    the role table is the one ISO C 6.10.1 prescribes."""
    out = []
    want = {"IfNode": (True, False, False), "ElIfNode": (False, True, False), "ElseNode": (False, True, False),
            "EndIfNode": (False, False, True)}
    for cls in sorted(index.subclasses("Node")):
        roles = []
        for m in ("is_start_node", "is_cont_node", "is_end_node"):
            fi = index.find_method(cls, m)
            roles.append(_const_return(fi) if fi else None)
        ok = all(r in (True, False) for r in roles) and sum(1 for r in roles if r) <= 1
        known = ("Node", "FileNode", "CodeNode", "DirectiveNode", "UnrecognizedDirectiveNode", "PragmaNode", "DefineNode", "UndefNode",
                 "IncludeNode", "IfNode", "ElIfNode", "ElseNode", "EndIfNode")
        if cls in want or cls in known:
            exp = want.get(cls, (False, False, False))
            out.append((f"node-role-table/{cls}=={exp}", ok and tuple(roles) == exp, f"found {roles}", "codebasin.preprocessor:Node"))
        else:
            # a node class this table does not know (an extension of the tool): only the shape of its roles is demanded
            out.append((f"node-role-table/{cls}: constant roles, at most one", ok, f"found {roles}", "codebasin.preprocessor:Node"))
    return out


UNITS = [
    "codebasin.platform:Platform.define",
    "codebasin.platform:Platform.undefine",
    "codebasin.platform:Platform.is_defined",
    "codebasin.platform:Platform.get_macro",
    "codebasin.finder:ParserState.associate.<locals>.associator",
    "codebasin.preprocessor:Node.visit",
]

ASSUMPTIONS = [
    "Platform.define's postcondition 'the first definition of a name is kept' is taken from the function's own docstring, not from the "
    "property statement; for a macro defined twice a compiler uses the last definition (recorded finding emulation:first-definition-of-a-macro-wins)",
    "A1; node.evaluate_for_platform is abstracted as an arbitrary truth value (C02/C03 own expression evaluation and expansion)",
    "Visit enum members modelled by their integer values",
    "association is a collections.defaultdict(set) (created by ParserState.insert_file)",
]
NOT_COVERED = [
    "tree construction (SourceTree.insert) and the pruned recursive visit are covered by the bounded composition stand-in, not by proof",
    "RecursionError for nesting deeper than CPython's limit",
]
EXPLANATION = ("Macro-table operations and the visitor closure that drives conditional inclusion are proved against "
               "the conditional-stack semantics of ISO C 6.10.1, per node, for every stack and node kind.")
