"""
C02 -- #if expressions are evaluated with C integer-constant-expression semantics.

Proved here (exact, finite obligations over constants and statements read from
the real ast on every run):
  * the precedence / associativity table of ExpressionEvaluator induces, through
    the climbing rule as written in `expression`, exactly the grouping of the ISO C
    grammar for every ordered pair of binary operators; unary operators bind
    tighter than every binary one; ?: is lowest and right associative;
  * the shape of the climbing loop (>= min_precedence, prec + 1 for LEFT, prec for
    RIGHT) and of `evaluate` (truth value = value != 0);
  * an #elif/#else of a chain that already selected a branch is not evaluated
    (contract of the associator closure, shared with C01).
Bounded (native/C02.py, labelled so): operator semantics, conversions, literals,
character constants, defined, identifiers against a C reference evaluator.
"""
import ast

import contracts.C01 as C01     # noqa: F401  (associator: #elif not evaluated after a taken branch)

LEVEL = "other"
UNITS = ["codebasin.finder:ParserState.associate.<locals>.associator"]

# ISO C (6.5) binary operator precedence levels, higher binds tighter; all left associative
C_TABLE = {"*": 10, "/": 10, "%": 10, "+": 9, "-": 9, "<<": 8, ">>": 8, "<": 7, "<=": 7, ">": 7, ">=": 7,
           "==": 6, "!=": 6, "&": 5, "^": 4, "|": 3, "&&": 2, "||": 1}


def _table(index, name):
    ci = index.class_by_name["ExpressionEvaluator"]
    d = ci.class_assigns[name]
    out = {}
    for k, v in zip(d.keys, d.values):
        out[k.value] = (v.args[0].value, v.args[1].value)
    return out


def extra_obligations(index, tier):
    key = "codebasin.preprocessor:ExpressionEvaluator.expression"
    out = []
    try:
        B = _table(index, "BinaryOperators")
        U = _table(index, "UnaryOperators")
    except Exception as e:      # noqa: BLE001
        return [("operator tables readable", False, str(e), key)]
    out.append(("binary-operator-set==C's (plus ?)", set(B) == set(C_TABLE) | {"?"}, str(sorted(set(B) ^ (set(C_TABLE) | {'?'}))), key))
    for op1 in C_TABLE:
        for op2 in C_TABLE:
            if op1 in B and op2 in B:
                # a op1 b op2 c : CBI parses rhs of op1 with min precedence prec(op1)+1 (LEFT), so op2 is absorbed
                # into the right operand iff prec(op2) >= prec(op1)+1
                p1, a1 = B[op1]
                p2, _ = B[op2]
                absorbed = (p2 >= p1 + 1) if a1 == "LEFT" else (p2 >= p1)
                c_right = C_TABLE[op2] > C_TABLE[op1]
                out.append((f"grouping/a {op1} b {op2} c", absorbed == c_right, f"cbi groups right: {absorbed}, C: {c_right}", key))
    for op in C_TABLE:
        if op in B:
            out.append((f"ternary-binds-looser-than/{op}", B["?"][0] < B[op][0], "", key))
            out.append((f"unary-binds-tighter-than/{op}", all(U[u][0] > B[op][0] for u in U), "", key))
    out.append(("ternary-is-right-associative", B.get("?", (None, None))[1] == "RIGHT", "", key))
    out.append(("unary-operator-set", set(U) == {"-", "+", "!", "~"}, str(sorted(U)), key))
    src = "".join(ast.unparse(index.func(key).node).split())
    out.append(("climbing-guard: operator taken iff prec >= min_precedence", ".prec>=min_precedence" in src, "", key, "pattern"))
    out.append(("LEFT: rhs = expression(prec + 1)", "ifassoc=='LEFT':rhs=self.expression(prec+1)" in src, "", key, "pattern"))
    out.append(("RIGHT: rhs = expression(prec)", "elifassoc=='RIGHT':rhs=self.expression(prec)" in src, "", key, "pattern"))
    ev = ast.unparse(index.func("codebasin.preprocessor:ExpressionEvaluator.evaluate").node)
    out.append(("truth-value==(value != 0)", "return test_val != 0" in ev, "", "codebasin.preprocessor:ExpressionEvaluator.evaluate", "pattern"))
    prim = ast.unparse(index.func("codebasin.preprocessor:ExpressionEvaluator.primary").node)
    out.append(("unary operand parsed at the unary precedence", "expr = self.expression(prec)" in prim, "",
                "codebasin.preprocessor:ExpressionEvaluator.primary", "pattern"))
    return out


ASSUMPTIONS = ["A9 the ISO C precedence table and the reference evaluator of native/C02.py are trusted specs",
               "A3 numpy scalars only carry the operand type (int64/uint64); the arithmetic is done on Python integers"]
NOT_COVERED = ["operator semantics / literal conversion / lexing are checked up to the stated bound only",
               "unsuffixed literals above INT64_MAX raise OverflowError (pinned by tests/failure): recorded finding",
               "macro expansion before evaluation (C03)"]
EXPLANATION = ("Table, grouping and #elif obligations are discharged exactly on the real ast; the arithmetic itself is checked "
               "against a C reference evaluator on every atom, every binary operator over boundary operands, every ordered operator "
               "pair, ternary nesting and seeded random expressions (bounded).")
