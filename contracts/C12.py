"""
Contracts for C12 -- compiler emulation (codebasin/config.py).

ArgumentParser.__init__: recognition by basename, transitive alias
resolution, loops and dangling targets reported, never hangs (decreases) and
never raises.  PreprocessorConfiguration._update: a mode/pass contributes
exactly its three lists.
"""
import z3

from pyvc.contract import contract, lemma, LoopSpec, ObjSpec, CellOf
from pyvc.values import *  # noqa
from pyvc import bigop, ops
from pyvc import fsmodel as F
from pyvc.fsmodel import PATH
from pyvc.symex import ObjView

NAME = PATH                      # compiler names are basenames of argv[0]
ONAME = Opt(NAME)
COMPILER = Abstract("Compiler", attrs={"alias_of": ONAME})
TABLE = MapOf(NAME, COMPILER)

i_ = contract("codebasin.config:ArgumentParser.__init__", props=["C12", "C18"])
i_.param("self", ObjSpec("ArgumentParser", {})).param("path", PATH)
i_.globals = [("_compilers", CellOf(TABLE))]
i_.modifies = ["self"]


@i_.requires
def _(A):
    F.install_axioms()
    t = A._compilers
    return [("compiler-table-already-loaded (non-empty)", z3.Not(t.dom == z3.K(NAME.sort(), z3.BoolVal(False))))]


def alias_of(t, n):
    return COMPILER.attr_fn("alias_of")(z3.Select(t.valarr, n))


def chain_ok(t, chain, start):
    i, j = z3.Ints("ch!i ch!j")
    n, a = chain.n, chain.arr
    return [
        ("chain-starts-at-the-compiler-name", z3.And(n >= 1, a[0] == start)),
        ("chain-members-are-known-compilers", z3.ForAll([i], z3.Implies(z3.And(0 <= i, i < n), t.dom[a[i]]))),
        ("chain-follows-alias_of", z3.ForAll([i], z3.Implies(z3.And(0 <= i, i < n - 1),
                                                             alias_of(t, a[i]) == ONAME.sort().some(a[i + 1])))),
        ("chain-is-duplicate-free", z3.ForAll([i, j], z3.Implies(z3.And(0 <= i, i < j, j < n), a[i] != a[j]))),
    ]


i_.loop(0, LoopSpec(
    invariant=lambda L: chain_ok(L.args._compilers, L.alias_chain, L.self.name.t),
    decreases=lambda L: bigop.card(L.args._compilers.dom) - L.alias_chain.n,
    hints=lambda L: [bigop.nodup_seq_card(L.alias_chain, L.args._compilers.dom)] + bigop.card_facts(L.args._compilers.dom),
    kinds={"alias": NAME}))


@i_.ensures
def _(A, R):
    t = A._compilers
    name = F.basename(A.path.t)
    comp = R.new.self.compiler
    levels = [lv for lv, _, _ in R.log]
    is_empty_instance = isinstance(comp, ObjView)
    out = [("name-is-basename-of-argv0", R.new.self.name.t == name)]
    known = t.dom[name]
    if is_empty_instance:
        # unknown compiler (one warning), or alias loop / dangling alias (one error)
        out.append(("empty-compiler-only-with-exactly-one-diagnostic",
                    z3.BoolVal(len(levels) == 1 and levels[0] in ("warning", "error"))))
        if levels == ["warning"]:
            out.append(("warning-iff-compiler-unknown", z3.Not(known)))
        elif levels == ["error"]:
            chain = R.new.alias_chain
            last = chain.arr[chain.n - 1]
            nxt = ONAME.sort().get(alias_of(t, last))
            out.append(("error-only-for-loop-or-dangling-target",
                        z3.And(known, z3.Not(ONAME.sort().is_none(alias_of(t, last))),
                               z3.Or(chain.has(nxt), z3.Not(t.dom[nxt])))))
    else:
        chain = R.new.alias_chain
        last = chain.arr[chain.n - 1]
        out.append(("no-diagnostic-when-resolved", z3.BoolVal(len(levels) == 0)))
        out += chain_ok(t, chain, name)
        out.append(("resolved-compiler-is-the-end-of-the-alias-chain",
                    z3.And(known, comp.t == z3.Select(t.valarr, last), ONAME.sort().is_none(alias_of(t, last)))))
    return out


# ------------------------------------------------------------- _update
LISTS = ("defines", "include_paths", "include_files")
ARG = Atom("Arg")
CFG = ObjSpec("PreprocessorConfiguration", {k: CellOf(SeqOf(ARG)) for k in LISTS})
PASS = Abstract("PassOrMode", attrs={k: SeqOf(ARG) for k in LISTS})

u = contract("codebasin.config:PreprocessorConfiguration._update", props=["C12"])
u.param("self", CFG).param("pass_or_mode", PASS)
u.modifies = ["self." + k for k in LISTS]


@u.ensures
def _(A, R):
    return [(f"{k}==old++mode.{k}",
             getattr(R.new.self, k).eq(getattr(A.self, k).concat(PASS.attr(A.pass_or_mode, k))))
            for k in LISTS]


UNITS = [
    "codebasin.config:ArgumentParser.__init__",
    "codebasin.config:PreprocessorConfiguration._update",
]
ASSUMPTIONS = [
    "A4 os.path.basename is a pure function of the name",
    "the process-wide compiler table is already loaded and non-empty (its loading/merging, _load_compilers, is bounded only)",
    "alias_of is None or a non-empty name (an empty string would be falsy in Python; the schema requires a string)",
    "A7 log.warning/error append one record each; log.info/debug are no-ops",
]
NOT_COVERED = [
    "parse_args: pass/mode composition over argparse's namespace, custom actions (_StoreSplitAction/_ExtendMatchAction): bounded native checks only",
    "_load_compilers merge of built-in and user TOML",
]
EXPLANATION = ("The alias walk of ArgumentParser.__init__ is proved total (decreases card(table)-len(chain)) and correct for every "
               "compiler table, including cycles and dangling targets; _update is proved to contribute exactly the three lists.")
