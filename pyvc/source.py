"""
pyvc.source -- reads the real source of /repo on every run.

Functions are addressed as "<module>:<qualname>", e.g.
"codebasin.report:FileTree.insert" or
"codebasin.finder:ParserState.associate.<locals>.associator".
Nothing is copied or paraphrased: the ast of the working tree is what the
executor walks.  Dropped by extraction (stated in DESIGN 2.1): docstrings,
annotations, decorators other than staticmethod/classmethod/property/dataclass.
"""
import ast
import hashlib
import os

REPO = os.environ.get("CBI_REPO", "/repo")


class FuncInfo:
    def __init__(self, module, qualname, node, cls, path):
        self.module, self.qualname, self.node, self.cls, self.path = module, qualname, node, cls, path
        decos = []
        for d in node.decorator_list:
            if isinstance(d, ast.Name):
                decos.append(d.id)
            elif isinstance(d, ast.Attribute):
                decos.append(d.attr)
            elif isinstance(d, ast.Call):
                decos.append(ast.unparse(d.func).split(".")[-1])
            else:
                decos.append(ast.unparse(d))
        self.decorators = decos

    def foreign_decorators(self):
        """decorators whose effect is not "call the body" (caches, wrappers): the body is then not the behaviour"""
        ok = {"staticmethod", "classmethod", "property", "setter", "abstractmethod", "override", "final"}
        return [d for d in self.decorators if d not in ok]

    @property
    def key(self):
        return f"{self.module}:{self.qualname}"

    @property
    def is_static(self):
        return "staticmethod" in self.decorators

    @property
    def is_classmethod(self):
        return "classmethod" in self.decorators

    @property
    def is_property(self):
        return "property" in self.decorators

    def ast_hash(self):
        return hashlib.sha256(ast.dump(self.node).encode()).hexdigest()[:16]


class ClassInfo:
    def __init__(self, module, name, node):
        self.module, self.name, self.node = module, name, node
        self.bases = []
        for b in node.bases:
            if isinstance(b, ast.Name):
                self.bases.append(b.id)
            elif isinstance(b, ast.Attribute):
                self.bases.append(b.attr)
        self.methods = {}
        self.class_assigns = {}      # name -> ast value (class-level constants)
        self.fields = []             # dataclass-style annotated fields (name, default ast|None)
        self.is_dataclass = any(
            (isinstance(d, ast.Name) and d.id == "dataclass")
            or (isinstance(d, ast.Call) and getattr(d.func, "id", "") == "dataclass")
            for d in node.decorator_list)


class SourceIndex:
    def __init__(self, repo=REPO, package="codebasin"):
        self.repo = repo
        self.funcs = {}
        self.classes = {}            # (module, name) -> ClassInfo
        self.class_by_name = {}      # name -> ClassInfo (names are unique in this package)
        self.modules = {}            # module -> ast.Module
        self.module_paths = {}
        self.file_hashes = {}
        root = os.path.join(repo, package)
        for dirpath, _, files in os.walk(root):
            for f in sorted(files):
                if not f.endswith(".py"):
                    continue
                path = os.path.join(dirpath, f)
                rel = os.path.relpath(path, repo)[:-3].replace(os.sep, ".")
                if rel.endswith(".__init__"):
                    rel = rel[: -len(".__init__")]
                with open(path, "rb") as fh:
                    data = fh.read()
                self.file_hashes[os.path.relpath(path, repo)] = hashlib.sha256(data).hexdigest()
                tree = ast.parse(data, filename=path)
                self.modules[rel] = tree
                self.module_paths[rel] = path
                self._index(rel, tree, path)

    def _index(self, module, tree, path):
        def visit(body, prefix, cls):
            for node in body:
                if isinstance(node, (ast.FunctionDef, ast.AsyncFunctionDef)):
                    qn = prefix + node.name
                    fi = FuncInfo(module, qn, node, cls, path)
                    self.funcs[fi.key] = fi
                    if cls is not None and prefix == cls.qualprefix:
                        cls.methods[node.name] = fi
                    visit(node.body, qn + ".<locals>.", None)
                elif isinstance(node, ast.ClassDef):
                    ci = ClassInfo(module, node.name, node)
                    ci.qualprefix = prefix + node.name + "."
                    self.classes[(module, prefix + node.name)] = ci
                    # nested classes (e.g. report.FileTree.Node) are known by their qualified
                    # name only, so that they cannot shadow a top-level class of the same name
                    self.class_by_name[(prefix + node.name) if prefix else node.name] = ci
                    for st in node.body:
                        if isinstance(st, ast.Assign) and len(st.targets) == 1 and isinstance(st.targets[0], ast.Name):
                            ci.class_assigns[st.targets[0].id] = st.value
                        elif isinstance(st, ast.AnnAssign) and isinstance(st.target, ast.Name):
                            ci.fields.append((st.target.id, st.value))
                    visit(node.body, ci.qualprefix, ci)
                elif isinstance(node, (ast.If, ast.Try, ast.With, ast.For, ast.While)):
                    for fld in ("body", "orelse", "finalbody"):
                        visit(getattr(node, fld, []) or [], prefix, cls)
                    for h in getattr(node, "handlers", []) or []:
                        visit(h.body, prefix, cls)
        visit(tree.body, "", None)

    def func(self, key):
        if key not in self.funcs:
            raise KeyError(f"function {key} not found in {self.repo} (contract refers to a vanished name)")
        return self.funcs[key]

    # ---- class hierarchy -------------------------------------------------
    def mro(self, clsname):
        out, todo = [], [clsname]
        while todo:
            c = todo.pop(0)
            if c in out:
                continue
            out.append(c)
            ci = self.class_by_name.get(c)
            if ci:
                todo.extend(ci.bases)
        return out

    def find_method(self, clsname, meth):
        for c in self.mro(clsname):
            ci = self.class_by_name.get(c)
            if ci and meth in ci.methods:
                return ci.methods[meth]
        return None

    def is_subclass(self, clsname, base):
        return base in self.mro(clsname)

    def subclasses(self, base):
        return [n for n in self.class_by_name if self.is_subclass(n, base)]

    def module_function(self, module, name):
        return self.funcs.get(f"{module}:{name}")

    def module_imports(self, module):
        """local name -> dotted target for import statements at module level"""
        out = {}
        for node in self.modules[module].body:
            if isinstance(node, ast.Import):
                for a in node.names:
                    out[a.asname or a.name.split(".")[0]] = a.name if a.asname else a.name.split(".")[0]
            elif isinstance(node, ast.ImportFrom):
                for a in node.names:
                    out[a.asname or a.name] = f"{node.module}.{a.name}"
        return out

    def module_assign(self, module, name):
        for node in self.modules[module].body:
            if isinstance(node, ast.Assign):
                for t in node.targets:
                    if isinstance(t, ast.Name) and t.id == name:
                        return node.value
        return None


BUILTIN_EXC = {
    "BaseException": None, "Exception": "BaseException",
    "ArithmeticError": "Exception", "ZeroDivisionError": "ArithmeticError",
    "OverflowError": "ArithmeticError",
    "LookupError": "Exception", "KeyError": "LookupError", "IndexError": "LookupError",
    "ValueError": "Exception", "TypeError": "Exception", "RuntimeError": "Exception",
    "NotImplementedError": "RuntimeError", "RecursionError": "RuntimeError",
    "StopIteration": "Exception", "AttributeError": "Exception",
    "AssertionError": "Exception", "OSError": "Exception",
    "FileNotFoundError": "OSError", "UnicodeDecodeError": "ValueError",
    "ArgumentError": "Exception",
}


def exc_matches(index, raised, handler):
    """is exception class `raised` caught by `except handler`?"""
    seen = set()
    todo = [raised]
    while todo:
        c = todo.pop()
        if c is None or c in seen:
            continue
        seen.add(c)
        if c == handler:
            return True
        if c in BUILTIN_EXC:
            todo.append(BUILTIN_EXC[c])
        ci = index.class_by_name.get(c)
        if ci:
            todo.extend(ci.bases)
    return False
