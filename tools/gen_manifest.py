#!/usr/bin/env python3
"""Regenerates MANIFEST.json from the table below (run: python3 tools/gen_manifest.py)."""
import json
import os

HERE = os.path.dirname(os.path.dirname(os.path.abspath(__file__)))
props = [json.loads(l) for l in open(os.path.join(HERE, "properties.jsonl"))]

CHECKS = {
    "C07": dict(
        category="proof",
        text=("Every metric function of codebasin/report.py (coverage, average_coverage, distance, divergence, "
              "extract_platforms) is symbolically executed from its real ast on every run and proved, by "
              "weakest-precondition style VCs discharged with z3, equal to the spec function written from the "
              "property statement, for every finite map, every platform argument and every iteration order "
              "(loops cut by sum-over-seen-set invariants; no bound). Symmetry, zero diagonal, ranges, scale "
              "invariance and avg-of-one are proved as lemmas over the same spec functions. The spec functions were "
              "re-derived from the statement after a review found three clauses copied from the code (empty selection, NaN "
              "cases, distance of two empty line sets); three defects found that way were fixed in /repo. Floating-point "
              "range and order-independence (one division of integer sums, sorted platforms) are outside the real-number "
              "model and are checked natively: exactly, and under 8 hash seeds in C14."),
        design_ref="DESIGN.md section 5 C07, section 9",
        note=("A1 Python-subset semantics of the generator; A2 floats are exact reals + NaN; A10 finite-set/big-sum "
              "axioms (Mathlib transcriptions); A11 z3; itertools.combinations modelled as 'each 2-subset once'. "
              "A native exact-rational run of the same contracts on small maps cross-checks the engine each run "
              "(bounded, not counted)."),
        technique="contract-based deductive verification: ast->VC generator (pyvc) + z3, sidecar contracts",
    ),
}

TECH = "contract-based deductive verification: ast->VC generator (pyvc) + z3, sidecar contracts"
COMMON_NOTE = ("A1 Python-subset semantics of the generator; A11 z3; a native run of the same contracts on small inputs "
               "cross-checks the engine and serves as refuter each run (bounded, not counted). ")
CHECKS["C01"] = dict(
    category="proof",
    text=("Proved for all inputs: the macro table operations of Platform (define keeps the first definition, undefine "
          "removes, is_defined/get_macro read it) and the visitor closure `associator` of ParserState.associate against "
          "the ISO C 6.10.1 conditional-stack semantics per node (attribution before every early return, push/replace/"
          "pop discipline, exactly one branch of a chain, #elif/#else after a taken branch skipped without evaluation, "
          "node evaluated with the visitor's own platform object), plus the node-role table read from the class "
          "hierarchy, and one level of the pruned preorder traversal Node.visit (the visitor sees the node first; unless "
          "it answers NEXT_SIBLING every child is visited in list order with the same visitor, nothing else; any number of "
          "children, the recursive calls being the recursion hypothesis). The composition tree-build + pruned visit == flat "
          "conditional stack is NOT proved: it is a "
          "bounded stand-in (every well-nested sequence of <=5 (quick) / <=7 (thorough) lines over 13 directive kinds, "
          "X predefined or not, real finder.find against a reference stack), labelled bounded in the evidence."),
    design_ref="DESIGN.md section 5 C01, section 9",
    note=COMMON_NOTE + "node.evaluate_for_platform is abstracted as an arbitrary truth value (C02/C03); Visit enum members by integer value; SourceTree.insert / Node.visit only inside the bounded composition.",
    technique=TECH,
)
CHECKS["C04"] = dict(
    category="proof",
    text=("Platform.find_include_file is proved to return the first existing candidate in compiler search order "
          "(including directory first for the quote form, then the include paths; include paths only for the angle "
          "form) for every search path, file system and memo content, independently of earlier lookups: the memo "
          "invariant 'every cached answer is the resolution of its own (name, directory, form) key' is required and "
          "re-established; the once-list (add_include_to_skip / process_include) and add_include_path are proved "
          "against set/sequence specs. The attribution of included files (IncludeNode, forced includes in find) is "
          "not under contract yet."),
    design_ref="DESIGN.md section 5 C04, section 9",
    note=COMMON_NOTE + "A4 static file system; os.path.join/abspath/isfile are uninterpreted pure functions/predicates of the name.",
    technique=TECH,
)
CHECKS["C12"] = dict(
    category="proof",
    text=("ArgumentParser.__init__ is proved, for every compiler table (including alias cycles and dangling targets): "
          "recognition by basename, transitive alias resolution to the end of the alias chain, exactly one diagnostic "
          "and the empty compiler for unknown names / loops / dangling targets, no exception, and termination "
          "(decreases card(table) - len(chain)). PreprocessorConfiguration._update is proved to append exactly the "
          "mode's/pass's three lists. parse_args (pass/mode composition through argparse), the custom actions and "
          "_load_compilers are not under contract."),
    design_ref="DESIGN.md section 5 C12, section 9",
    note=COMMON_NOTE + "A4 os.path.basename pure; the compiler table is assumed loaded and non-empty; alias_of is None or a non-empty name; A7 logging.",
    technique=TECH,
)

CHECKS["C15"] = dict(
    category="proof",
    text=("ParserState is proved to keep exactly one tree / association / language entry per physical file: _get_realpath "
          "returns os.path.realpath under the cache invariant; insert_file addresses the real path, never parses a known "
          "file again (ghost call counter), parses a new one exactly once, records for it the given language (else the one its "
          "name selects) and starts it with an empty association; "
          "get_tree/get_map look up through the real path; the table invariant (keys canonical, three tables with equal "
          "domains) is preserved. get_setmap (shared with C06) is proved to skip exactly the symbolic links whose target "
          "is a member. Membership of links (CodeBase.__contains__) and FileTree.insert are not under contract yet."),
    design_ref="DESIGN.md section 5 C15, section 9",
    note=COMMON_NOTE + "A4 static file system, realpath pure and idempotent; FileParser.parse_file assumed to be a function of (file, language, flag).",
    technique=TECH,
)
CHECKS["C06"] = dict(
    category="proof",
    text=("ParserState.get_setmap is proved, for every code base, parse state and enumeration order, to return for each "
          "platform set S exactly the sum over the canonical (non-skipped) files of the lines of the code nodes whose "
          "association is exactly S (nested loops cut by a big-sum invariant over files and a prefix-sum invariant over "
          "the node list) - the 'one platform set per line' clause. One level of FileTree.insert (the body of its path walk) is proved to "
          "add the file's figures, set by set, to the directory above that level - nothing when the FILE is a symbolic link - "
          "to reuse or create exactly one child under the level's name (a file node carrying the file's figures, a directory "
          "node empty) and to move on to it. The composition of the levels into whole trees and the agreement of the "
          "summary, tree and coverage front ends (report.summary, coverage._compute) are bounded stand-ins."),
    design_ref="DESIGN.md section 5 C06, section 9",
    note=COMMON_NOTE + "A4; A10 big-sum/prefix-sum axioms; tree.walk() a pure function of the tree; get_tree/get_map used through their own contracts (C15).",
    technique=TECH,
)
CHECKS["C16"] = dict(
    category="proof",
    text=("report.find_duplicates is proved (four nested loops, partition-refinement invariants, termination of the "
          "while loop by card(remaining)) to return exactly the content-equality classes of size >= 2 among the "
          "enumerated members that are not symbolic links: every group is a full class, every file with an identical "
          "twin is listed, no group is listed twice - for every code base and every hash-bucket / set iteration order. "
          "That the enumeration hands over every member (hard-linked names included) is a bounded stand-in on small trees "
          "built by the check, with the expected members taken from the files it created."),
    design_ref="DESIGN.md section 5 C16, section 9",
    note=COMMON_NOTE + "A5 sha512 digest is a function of content, filecmp.cmp(shallow=False) <=> equal content; A4 static FS, no I/O errors; A10 cardinality lemmas.",
    technique=TECH,
)

CHECKS["C08"] = dict(
    category="proof",
    text=("The per-entry block of finder.find (the body of its innermost entry loop, verified as a unit on the real ast) "
          "is proved, for every entry, to create a NEW platform object and to perform on that object only, in this order: "
          "every -I directory in order, every -D macro in order, each -include looked up from the file's directory (insert + "
          "associate with the same object on a hit), and finally the file itself - so nothing defined, marked once or cached "
          "for one entry can reach another through the platform object. Footprint obligations (no `global`, no class-level "
          "mutable state on the association path, Platform.__init__ starts empty, the object is allocated inside the loop) "
          "are checked syntactically. Composition over all entries/platforms, -p projection and order independence are a "
          "bounded stand-in (multi-platform model code bases vs per-entry reference, reversed orders, single-platform runs)."),
    design_ref="DESIGN.md section 5 C08, section 9",
    note=COMMON_NOTE + "Callees (Platform methods, insert_file, associate) are opaque here and owned by C01/C04/C15; per-entry determinism of associate assumed; Token.prev_white stores listed as frame exception.",
    technique=TECH,
)
CHECKS["C09"] = dict(
    category="proof",
    text=("CodeBase.__contains__ is proved to return the membership formula: the path AS SPELLED names an existing file and "
          "its RESOLVED path is not a directory, has a recognised suffix, lies below a code-base directory and is not matched "
          "relative to the first such directory - hence independent of spelling and links - and CodeBase.__iter__ to yield "
          "exactly the members found below the directories, never listing a path again (overlapping directories); the suffix "
          "table is checked against FileLanguage's. The gitignore semantics of the matcher is pathspec's (assumed, NOT "
          "claimed); a native run compares it with `git check-ignore` on random trees (bounded) and reports four known "
          "divergences of pathspec from git."),
    design_ref="DESIGN.md section 5 C09, section 9",
    note=COMMON_NOTE + "A4 pathlib/os.path as uninterpreted relations on a static FS; A6 pathspec match_file uninterpreted.",
    technique=TECH,
)
CHECKS["C13"] = dict(
    category="proof",
    text=("config.load_database is proved (two nested loops, offset/prefix-sum invariants) to emit in database order exactly "
          "one entry per configuration of every supported command whose file exists, with `file` and every -I/-isystem "
          "directory resolved against the entry's directory (itself relative to the root when not absolute), one warning "
          "per skipped entry, never an exception for any spelling, later entries unaffected; CompileCommand.is_supported "
          "is proved for the arguments form and CompileCommand.arguments for both forms (shlex.split uninterpreted); "
          "CompileCommand.from_json with __init__ inlined is proved to store each JSON member in its own field (None when "
          "absent) and to raise ValueError iff neither arguments nor command is given (JSON values opaque). "
          "Three defects found this way were fixed in /repo."),
    design_ref="DESIGN.md section 5 C13, section 9",
    note=COMMON_NOTE + "A4 os.path functions uninterpreted; from_file / ArgumentParser.parse_args opaque; DEBUG logging disabled; the `command` string form (shlex) only in the bounded native run.",
    technique=TECH,
)

CHECKS["C18"] = dict(
    category="proof",
    text=("Every place that detects unhonoured input is proved to emit exactly one warning under exactly the stated "
          "condition: IncludeNode.evaluate_for_platform (iff the lookup found nothing - a memoised miss included - with the "
          "form quote/angle named), FileParser.insert_directive_node (iff unrecognised, >= 2 tokens, not #line/#warning/"
          "#error), the per-entry block of finder.find (one per forced include that is not found, naming it), "
          "load_database (one per skipped entry), ArgumentParser.__init__ (unknown compiler / alias loop / "
          "dangling alias). MetaWarning.inspect/warn and WarningAggregator.filter/warn are proved to count exactly the "
          "matching WARNING records and to print the count they hold; the set of log.warning call sites is checked "
          "against a table. The whole-run multiset of events and the printed totals are a bounded stand-in (model code "
          "bases with missing includes / unknown directives vs the reference preprocessor)."),
    design_ref="DESIGN.md section 5 C18, section 9",
    note=COMMON_NOTE + "A7 logging delivers one record per call; re.search / str.format uninterpreted; regex category soundness not proved; unknown flags only bounded (C11).",
    technique=TECH,
)

CHECKS["C11"] = dict(
    category="other",
    text=("BOUNDED, not proved: the recognition of -D/-I/-isystem/-include is done by CPython's argparse and shlex, which no "
          "contract within reach can verify, so this check evaluates the extraction contract of the statement on the real "
          "ArgumentParser('gcc').parse_args for every argument vector of <= 2 (quick) / <= 3 (thorough) tokens over a "
          "catalogue of recognised options (both spellings, awkward values) and unmodelled real compiler flags, plus seeded "
          "random vectors of 4..12 tokens, each also rendered as a shell-quoted command string. Discharged for all inputs are only the "
          "registered option table (syntactic obligations on the real ast) and CompileCommand.arguments (the arguments form is "
          "returned unchanged, an empty list included; otherwise shlex.split(command)). Thirteen deviations are recorded as "
          "known findings (FINDINGS.md)."),
    design_ref="DESIGN.md section 5 C11, section 9",
    note="A6 argparse/shlex unverified; bound stated in evidence.coverage.bounded; tokens exhibiting recorded findings are run in a separate target so that they cannot mask new failures.",
    technique="contract on the real function checked up to a stated bound (native), option table by syntactic obligations; deductive proof not applicable to argparse",
)
CHECKS["C12"]["text"] += (" parse_args (pass/mode composition, custom actions, implicit options, aliases incl. every alias graph over "
                          "3 names with a hang timeout) is covered by a bounded native stand-in against an oracle computed from "
                          "the generator's own description of the configuration.")

CHECKS["C10"] = dict(
    category="proof",
    text=("Decided as non-interference over contracts: the per-entry association block of finder.find (proved, C08) has no "
          "code-base parameter at all and nothing on the association path mentions membership (syntactic obligations), so "
          "files named by entries or reached by #include are preprocessed whether or not they are members; get_setmap "
          "(proved, C06) reads membership only through the enumeration and returns a sum over the enumerated canonical "
          "files, and the lemma Total(kept + removed) == Total(kept) + Total(removed) shows that excluding files removes "
          "exactly their summands; -x patterns and analysis-file patterns reach CodeBase as one list (syntactic). A bounded "
          "native run analyses model code bases with and without their exclusion list."),
    design_ref="DESIGN.md section 5 C10, section 9",
    note=COMMON_NOTE + "assumptions of C06/C08/C09/C15 for the shared units; argparse/tomllib (A6); language inherited by an included header vs its own when pre-parsed is noted, not covered.",
    technique=TECH,
)
CHECKS["C14"] = dict(
    category="proof",
    text=("Corollary check: the schedule (iteration order of sets, dicts, directory listings, platform tables) is a universally "
          "quantified variable of every VC - each set/dict/rglob loop iterates an arbitrary duplicate-free enumeration - and the "
          "postconditions of coverage, average_coverage, distance, divergence, extract_platforms, get_setmap, find_duplicates, "
          "CodeBase.__iter__ and the per-entry block of find relate order-free views only; they are re-discharged here, so the "
          "results hold for every PYTHONHASHSEED and scandir order. Ordering choices that reach the output (sorted platform "
          "names, sorted row labels) are pinned syntactically. A bounded native run repeats the three front ends in fresh "
          "processes under different hash seeds and platform-table permutations."),
    design_ref="DESIGN.md section 5 C14, section 9",
    note=COMMON_NOTE + "A2: float summation order may differ in the last bit; sequence order of records/groups/equal-sized rows follows enumeration order and is not claimed.",
    technique=TECH,
)

CHECKS["C02"] = dict(
    category="other",
    text=("Mixed: PROVED for all inputs on the real ast/bodies - (a) the precedence/associativity table of ExpressionEvaluator "
          "induces, through the climbing rule as written, the ISO C grouping for every ordered pair of the 18 binary operators, unary "
          "binds tighter, ?: lowest and right associative (554 finite obligations); (b) __wrap, __apply_unary_op (4 operators) and "
          "__apply_binary_op (18 operators) return the value and type ISO C defines for intmax_t/uintmax_t arithmetic for ALL operands "
          "of both types whenever C defines the result (about 230 obligations over the integers; a failing one yields operands that are "
          "replayed on the real function); (c) an #elif of a chain that already selected a branch is never evaluated. BOUNDED, and "
          "deciding for the rest: literals in every base/suffix, character constants, defined, unknown identifiers, ?: and the "
          "recursive parser are checked against a C reference evaluator (every atom x unary operator, every binary operator on "
          "boundary operands, every operator pair, ternary nesting, seeded random depth-3 expressions; a sample of them also written "
          "to a file with backslash-newlines inserted anywhere and read back through the real file parser). Six defect classes found "
          "this way were fixed in /repo."),
    design_ref="DESIGN.md section 5 C02, sections 9 and 13",
    note="A9 C reference evaluator and precedence table are trusted specs; A2b Python's & | ^ agree with abstract 64-bit operators on the low 64 bits (bit-level meaning not proved); the unsuffixed-literal OverflowError is pinned by tests/failure (known finding); macro expansion before evaluation belongs to C03.",
    technique="contracts on __wrap/__apply_unary_op/__apply_binary_op (per operator) and on the visitor closure, finite table obligations on the real ast (pyvc+z3); literals/parser by a bounded native check",
)

CHECKS["C05"] = dict(
    category="proof",
    text=("Transition-table conformance, proved for every character and buffer state: the body of the character loop of "
          "c_cleaner.process is verified as a unit for each of the 22 reachable state-stack shapes (and the directives-only "
          "variants) against the reference scanner for translation phases 2-3 (comment markers inside literals, quotes inside "
          "comments, pending slash with put-back, block-comment end becomes one space, // ends the line); c_cleaner."
          "logical_newline per shape; one_space_line.append_char/append_space/append_nonspace/category against the "
          "representation invariant (BLANK iff only blanks, directive iff the first non-blank part is #); LineGroup.add_line/"
          "empty arithmetic. 774 obligations. The composition over whole files (c_file_source, FileParser) is a bounded "
          "stand-in: every text of <= 5 (quick) / <= 7 (thorough, 5.4M texts) characters over the 9 lexically significant "
          "letters plus random token-level texts vs the reference scanner; two deviations are recorded findings."),
    design_ref="DESIGN.md section 5 C05, section 9",
    note=COMMON_NOTE + "A9 the reference scanner table is a trusted spec; character constants are one character or one escape; C++ raw strings / trigraphs outside.",
    technique=TECH,
)

CHECKS["C17"] = dict(
    category="proof",
    text=("Transition-table conformance, proved for every character: the body of the character loop of fortran_cleaner."
          "process is verified as a unit for each of the 12 reachable state-stack shapes against the reference free-form "
          "scanner (character context incl. ! & // inside literals, `!` comment and hand-over to the sentinel check, `&` held "
          "back until it is known to be a continuation marker, optional leading `&`, comment lines inside a continued "
          "statement), together with the directives-only steps of the C cleaner and the one_space_line buffer (shared with "
          "C05). The composition over whole files is a bounded stand-in (all texts of <= 6 / <= 8 characters over 8 letters - "
          "19M texts in thorough - and random token texts vs the reference classifier), and 'conditionals select lines as in C' "
          "is a bounded stand-in on model code bases with .F90 sources vs the reference preprocessor; that an included file is handed "
          "the language recorded for its includer rests on the insert_file contract (shared with C15: a new file records the "
          "given language, else the one its name selects), re-discharged here."),
    design_ref="DESIGN.md section 5 C17, section 9",
    note=COMMON_NOTE + "A9 reference scanner table trusted; dir_check (sentinel recognition) opaque in the step contracts; fixed-form Fortran unsupported by the code.",
    technique=TECH,
)

CHECKS["C03"] = dict(
    category="other",
    text=("BOUNDED, not proved: 'the expanded token sequence equals the one a conforming preprocessor produces' has no "
          "contract within reach (the specification of MacroExpander.expand is Prosser's algorithm), so the real expander is "
          "compared token for token with `gcc -E -P` on seeded random macro tables (object-like, function-like with up to 2 "
          "parameters + variadic, # and ##, nested / parenthesised / empty arguments, direct, mutual and argument-borne "
          "recursion) and invocations - 600 pairs quick, 6000 thorough - and -DNAME / -DNAME=value / -D'NAME(args)=value' are "
          "compared with the corresponding #define. Discharged: the macro-table contracts (shared with C01) and syntactic "
          "obligations tying the -D path to the #define path and the depth backstop. Three defects were fixed, four "
          "deviations are recorded findings."),
    design_ref="DESIGN.md section 5 C03, section 6, section 9",
    note="A9 gcc is the oracle; programs gcc diagnoses are outside the quantifier; argument tokens spelled like parameter names are exercised only by a fixed recorded-finding input.",
    technique="bounded differential check against gcc -E (native) + macro-table contracts (pyvc+z3); deductive proof of the expander not applicable",
)

NA = {}

DEFAULT_NA = "check not built yet (work in progress; see DESIGN.md section 5 for the plan)"

m = {
    "version": 1,
    "setup_cmd": "(cd lean && timeout 900 lean Theory.lean > Theory.log 2>&1 && echo LEAN-OK >> Theory.log || echo LEAN-FAILED >> Theory.log); python3-vt -m compileall -q pyvc contracts native >/dev/null 2>&1; true",
    "hooks": {
        "guard": "CBI_VERIF",
        "enable": "no source hooks: contracts are sidecar files under /verif/contracts; the guard name is reserved and unused",
        "baseline_off_cmd": "cd /repo && /venv/bin/python -m pytest -ra -q -p no:cacheprovider --timeout=900 --continue-on-collection-errors",
        "source_commits": [],
        "add_only": True,
    },
    "engines": [
        {"name": "pyvc", "path": "pyvc/", "serves_properties": sorted(CHECKS),
         "kind_free_text": "verification-condition generator for a Python subset (ast of /repo read on every run) + SMT (z3 5.1, cvc5/z3-4.8 fallback); sidecar contracts in contracts/; native exact replay/bounded harness in native/"},
    ],
    "checks": [],
    "not_applicable": [],
    "notes": "Exit codes of every check: 0 held / 1 VIOLATION / 2 undecided / 3 checker error. Fixed and known findings: known_findings.json.",
}
for p in props:
    pid = p["id"]
    if pid in CHECKS:
        c = CHECKS[pid]
        m["checks"].append({
            "property_id": pid,
            "quick_cmd": f"./check {pid} --tier quick",
            "thorough_cmd": f"./check {pid} --tier thorough",
            "evidence_file": f"evidence/{pid}.json",
            "replay_cmd_template": f"./check {pid} --replay {{path}}",
            "engine": "pyvc",
            "level_claimed": {"category": c["category"], "text": c["text"], "design_ref": c["design_ref"]},
            "level_note": c["note"],
            "technique": c["technique"],
        })
    else:
        m["not_applicable"].append({"property_id": pid, "reason": NA.get(pid, DEFAULT_NA)})
json.dump(m, open(os.path.join(HERE, "MANIFEST.json"), "w"), indent=1)
print("checks:", [c["property_id"] for c in m["checks"]])
